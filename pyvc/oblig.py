"""Obligations: declaration, discharge helpers and the parallel scheduler.

An obligation is a top-level function in a contracts module decorated with
@obligation(...).  It returns a dict produced by one of the helpers below:

  verify(...)      deductive: symbolic execution of real /repo source + z3/cvc5
  exhaustive(...)  complete enumeration of a finite configuration space on the real code
  bounded(...)     bounded stand-in: run-time contract check on sampled inputs (never "proved")

Status vocabulary: proved | refuted | unknown | held | failed | error
"""
import json
import multiprocessing as mp
import os
import time
import traceback

import z3

from . import sym, context, interp as interp_mod
from .context import explore, model_value

REGISTRY = {}


class ObSpec:
    def __init__(self, fn, oid, kind, tiers, params, timeout, desc):
        self.fn = fn
        self.id = oid
        self.kind = kind
        self.tiers = tiers
        self.params = params
        self.timeout = timeout
        self.desc = desc


def obligation(oid, kind="vc", tiers=("quick", "thorough"), params=None, timeout=300, desc=""):
    """Register an obligation.  `params`: list of dicts -> one obligation per entry,
    id suffixed with [k=v,...]."""
    def deco(fn):
        mod = fn.__module__
        lst = REGISTRY.setdefault(mod, [])
        if params is None:
            lst.append(ObSpec(fn, oid, kind, tiers, {}, timeout, desc or (fn.__doc__ or "").strip()))
        else:
            for p in params:
                p = dict(p)
                ptiers = p.pop("_tiers", tiers)
                suffix = ",".join("%s=%s" % (k, v) for k, v in p.items())
                lst.append(ObSpec(fn, "%s[%s]" % (oid, suffix), kind, ptiers, p, timeout,
                                  desc or (fn.__doc__ or "").strip()))
        return fn
    return deco


# ---------------------------------------------------------------------------
class Inapplicable(Exception):
    """the contract's frame no longer matches the representation (e.g. a refactor added
    state the class invariant does not mention): the obligation is not decided - neither
    a pass nor an alarm; other (representation-independent) obligations still decide."""


class Goal:
    def __init__(self, label, cond):
        self.label = label
        self.cond = cond


def verify(body, inputs_of=None, replay=None, check_side=True, timeout_ms=30000,
           max_paths=5000, cover=True, name=""):
    """Deductive discharge.

    body(c, it) -> list[Goal] | Goal | SBool.  It creates symbolic inputs with
    c.var(...) (registering those worth replaying in c.inputs), states `requires`
    with c.assume(...), runs real code through `it` (an Interp) and returns the
    `ensures` goals.  Every feasible path is explored; every goal on every path
    is sent to the solver together with the path condition and the ground axiom
    instances.  Side obligations (division by zero, sqrt/log domain) are goals too.
    """
    t0 = time.time()
    res = {"status": "proved", "paths": 0, "goals": 0, "proved": 0, "backend": "z3",
           "functions": {}, "axioms": [], "abstractions": [], "samples": [], "solver_time_s": 0.0}
    failures = []
    unknowns = []
    st0 = context.STATS["solver_time"]

    def run(c):
        c.inputs = {}
        it = interp_mod.Interp(c)
        c.interp = it
        try:
            g = body(c, it)
        except interp_mod.PyRaise as pr:
            # the code under contract raised on a feasible path and the contract did not
            # expect it: a failed obligation (the path condition gives the witness)
            g = [Goal("no unexpected exception (got %s: %s)" % (type(pr.exc).__name__, str(pr.exc)[:120]), False)]
            c.side = []
        return it, g

    try:
        paths = explore(run, max_paths=max_paths, name=name)
    except Inapplicable as e:
        return {"status": "inapplicable", "error": "contract frame mismatch: %s" % e}
    except interp_mod.EngineError as e:
        return {"status": "error", "error": "EngineError: %s" % e, "trace": traceback.format_exc()}
    if not paths and cover:
        return {"status": "error", "error": "vacuous: no feasible path (contradictory requires?)"}
    for c, (it, g) in paths:
        sym.set_ctx(c)
        try:
            res["paths"] += 1
            for k, v in it.functions_entered.items():
                res["functions"][k] = v
            for a in c.axiom_log:
                if a not in res["axioms"]:
                    res["axioms"].append(a)
            goals = []
            if g is None:
                g = []
            if isinstance(g, (sym.SBool, bool)):
                g = [Goal("ensures", g)]
            if isinstance(g, Goal):
                g = [g]
            goals.extend(g)
            for msg in getattr(c, "breaches", []):
                goals.append(Goal("library contract used outside its precondition: " + msg, False))
            if check_side:
                for (label, term, pclen) in c.side:
                    goals.append(Goal("side:" + label, sym.SBool(term)))
            else:
                # contracts that take "denominators are non-zero" as a requires (check_side=False) must still not divide by a
                # quantity that is zero for EVERY input: all cross-multiplied goals would read 0 == 0.  A divisor whose normal
                # form is the zero polynomial is reported as a failed goal (the real code divides by zero there).
                from . import poly as _poly
                seen_div = set()
                for (label, term, pclen) in c.side:
                    if label != "div-by-zero" or term.get_id() in seen_div or len(seen_div) > 400:
                        continue
                    seen_div.add(term.get_id())
                    try:
                        den = term.children()[0].children()[0] if z3.is_not(term) else term.children()[0]
                        # (a literal zero divisor is a path the contract itself deals with - e.g. "nothing is transmitted" - not
                        # a symbolic expression that cancels)
                        from .numeval import free_consts as _fc
                        if z3.is_arith(den) and _fc([den]) and _poly.is_zero(den, limit=20000):
                            goals.append(Goal("division by a quantity that is zero for every input: %s" % str(den)[:120].replace("\n", " "), False))
                    except Exception:
                        pass
            for gl in goals:
                res["goals"] += 1
                cond = gl.cond
                if isinstance(cond, bool):
                    cond = sym.SBool(z3.BoolVal(cond))
                if len(failures) >= 5:
                    # the obligation is refuted already and only five failures are reported: the rest is not attempted
                    unknowns.append({"goal": gl.label, "note": "not attempted after five refuted goals"})
                    continue
                # once a goal is refuted the verdict of the obligation is settled; further goals get a short budget
                verdict, info = c.prove(cond, timeout_ms=timeout_ms if not failures else min(timeout_ms, 3000),
                                        guided=not failures)
                backend = "z3"
                if verdict == "unknown" and not failures:
                    v2 = _cvc5_try(c, cond, timeout_ms)
                    if v2 is not None:
                        verdict, info, backend = v2[0], v2[1], "cvc5"
                if backend == "cvc5":
                    res["backend"] = "z3+cvc5"
                if len(res["samples"]) < 2:
                    try:
                        txt = c.smt2(cond)
                        res["samples"].append({"goal": gl.label, "verdict": verdict, "backend": backend,
                                               "smt2_head": txt[:600]})
                    except Exception:
                        pass
                if verdict == "proved":
                    res["proved"] += 1
                elif verdict == "refuted":
                    model = {}
                    if info is not None and not isinstance(info, dict):
                        for nm, v in getattr(c, "inputs", {}).items():
                            try:
                                model[nm] = _jsonable(_model_of(info, v))
                            except Exception as e:      # pragma: no cover
                                model[nm] = "<%s>" % e
                    elif isinstance(info, dict):
                        model = info
                    fl = {"goal": gl.label, "model": model, "decisions": list(c.decisions)}
                    if getattr(info, "numeric", False):
                        fl["model_kind"] = ("point found by exact/60-digit evaluation of the path condition and the goal at random "
                                            "rationals (the nonlinear solver gave up); true-function semantics for sqrt/exp/log/cos/sin")
                        if not model:
                            fl["model"] = info.as_dict()
                    failures.append(fl)
                else:
                    unknowns.append({"goal": gl.label})
        finally:
            sym.set_ctx(None)
    res["solver_time_s"] = round(context.STATS["solver_time"] - st0, 3)
    res["wall_s"] = round(time.time() - t0, 3)
    if failures:
        res["status"] = "refuted"
        res["failures"] = failures[:5]
        if replay is not None:
            for f in failures[:5]:
                try:
                    f["replay"] = _jsonable(replay(f["model"]))
                except Exception as e:
                    f["replay"] = {"confirmed": False, "error": "replay crashed: %r" % e}
    elif unknowns:
        res["status"] = "unknown"
        res["unknowns"] = unknowns[:5]
    elif replay is not None and os.environ.get("PYVC_REPLAY_SELFTEST", "1") != "0":
        # every goal is proved: the replay function, run on the same tree with an empty counter-model (generic values), must NOT
        # report a confirmed violation - otherwise it would turn an honest failure of the prover into a claimed defect
        try:
            probe = replay({})
        except Exception:
            probe = None
        if isinstance(probe, dict) and probe.get("confirmed"):
            res["status"] = "error"
            res["error"] = "replay self-test: the replay function confirms a violation although the obligation is proved: %r" % (probe,)
        else:
            res["replay_self_test"] = "passed" if isinstance(probe, dict) else "not applicable (needs a counter-model)"
    return res


def merge(results):
    """combine the results of several verify() calls into one obligation result"""
    out = {"status": "proved", "paths": 0, "goals": 0, "proved": 0, "backend": "z3", "functions": {}, "axioms": [],
           "samples": [], "solver_time_s": 0.0, "failures": [], "unknowns": []}
    rank = {"proved": 0, "inapplicable": 1, "unknown": 2, "refuted": 3, "error": 4}
    for r in results:
        for k in ("paths", "goals", "proved"):
            out[k] += r.get(k, 0) or 0
        out["solver_time_s"] += r.get("solver_time_s", 0.0) or 0.0
        out["functions"].update(r.get("functions") or {})
        for a in r.get("axioms") or []:
            if a not in out["axioms"]:
                out["axioms"].append(a)
        if len(out["samples"]) < 2:
            out["samples"].extend((r.get("samples") or [])[:1])
        out["failures"].extend(r.get("failures") or [])
        out["unknowns"].extend(r.get("unknowns") or [])
        if "+cvc5" in (r.get("backend") or ""):
            out["backend"] = "z3+cvc5"
        if rank.get(r.get("status"), 4) > rank[out["status"]]:
            out["status"] = r.get("status")
            if r.get("error"):
                out["error"] = r.get("error")
    out["failures"] = out["failures"][:5]
    out["solver_time_s"] = round(out["solver_time_s"], 3)
    return out


def _model_of(m, v):
    import numpy as np
    if isinstance(v, (list, tuple)):
        return [_model_of(m, x) for x in v]
    if isinstance(v, np.ndarray):
        return [_model_of(m, x) for x in v.tolist()]
    if isinstance(v, dict):
        return {k: _model_of(m, x) for k, x in v.items()}
    if isinstance(v, sym.Sym):
        return model_value(m, v)
    return v


def _jsonable(x):
    from fractions import Fraction
    import numpy as np
    if isinstance(x, Fraction):
        return float(x) if x.denominator != 1 else int(x)
    if isinstance(x, complex):
        return {"re": x.real, "im": x.imag}
    if isinstance(x, (np.integer,)):
        return int(x)
    if isinstance(x, (np.floating,)):
        return float(x)
    if isinstance(x, np.ndarray):
        return _jsonable(x.tolist())
    if isinstance(x, dict):
        return {str(k): _jsonable(v) for k, v in x.items()}
    if isinstance(x, (list, tuple)):
        return [_jsonable(v) for v in x]
    if isinstance(x, (str, int, float, bool)) or x is None:
        return x
    return repr(x)


def _cvc5_try(c, cond, timeout_ms):
    """second opinion from /usr/bin/cvc5 on an `unknown` (never on sat/unsat)"""
    import subprocess
    import tempfile
    try:
        txt = c.smt2(cond)
    except Exception:
        return None
    if "declare-sort" in txt and "Val" in txt:
        logic = "ALL"
    else:
        logic = "ALL"
    txt = "(set-logic %s)\n" % logic + txt.replace("(check-sat)", "(check-sat)\n")
    try:
        with tempfile.NamedTemporaryFile("w", suffix=".smt2", delete=False,
                                         dir=os.environ.get("PYVC_TMP", os.path.expanduser("~"))) as f:
            f.write(txt)
            path = f.name
        p = subprocess.run(["/usr/bin/cvc5", "--tlimit=%d" % timeout_ms, path],
                           capture_output=True, text=True, timeout=timeout_ms / 1000 + 10)
        os.unlink(path)
        out = p.stdout.strip().splitlines()
        if out and out[0] == "unsat":
            return ("proved", None)
        if out and out[0] == "sat":
            return ("refuted", {})
    except Exception:
        try:
            os.unlink(path)
        except Exception:
            pass
    return None


# ---------------------------------------------------------------------------
def lean_lemma(filename, timeout_s=1500):
    """Check a pure-mathematics bridge lemma with Lean 4 + Mathlib (`lean <file>`).
    proved iff lean exits 0 with no error/sorry/axiom-introducing output."""
    import subprocess
    here = os.path.dirname(os.path.dirname(os.path.abspath(__file__)))
    path = os.path.join(here, "lemmas", filename)
    t0 = time.time()
    src = open(path).read()
    if "sorry" in src or "axiom " in src or "admit" in src:
        return {"status": "error", "error": "lemma file contains sorry/axiom/admit", "backend": "lean4+mathlib"}
    try:
        p = subprocess.run(["lean", path], capture_output=True, text=True, timeout=timeout_s, cwd=os.path.dirname(path))
    except subprocess.TimeoutExpired:
        return {"status": "unknown", "error": "lean timed out after %ds" % timeout_s, "backend": "lean4+mathlib"}
    out = (p.stdout + p.stderr).strip()
    ok = p.returncode == 0 and "error" not in out and "sorry" not in out
    return {"status": "proved" if ok else "unknown", "backend": "lean4+mathlib", "goals": 1, "proved": 1 if ok else 0,
            "paths": 0, "wall_s": round(time.time() - t0, 1), "error": None if ok else out[:1500],
            "samples": [{"lemma_file": "lemmas/" + filename, "lean_output": out[:300], "statement_head": src[:500]}]}


# ---------------------------------------------------------------------------
def exhaustive(cases, check, name=""):
    """Complete enumeration of a finite space on the real code.
    check(case) -> None if ok, else a dict describing the failure (observed/expected)."""
    t0 = time.time()
    n = 0
    fails = []
    sample = []
    for case in cases:
        n += 1
        if len(sample) < 3:
            sample.append(_jsonable(case))
        r = check(case)
        if r is not None:
            fails.append({"case": _jsonable(case), "detail": _jsonable(r)})
            if len(fails) >= 5:
                break
    return {"status": "failed" if fails else "held", "evaluations": n, "failures": fails,
            "exhaustive": not fails, "samples": sample, "wall_s": round(time.time() - t0, 3),
            "backend": "exhaustive-config"}


def bounded(gen, check, name="", max_fail=3, budget_s=None):
    """Bounded stand-in: run-time check of the contract on the real code over the
    generated cases.  NEVER counted as proved."""
    t0 = time.time()
    n = 0
    fails = []
    sample = []
    distinct = set()
    for case in gen:
        n += 1
        key = repr(_jsonable(case))[:400]
        distinct.add(key)
        if len(sample) < 3:
            sample.append(_jsonable(case))
        try:
            r = check(case)
        except Exception as e:
            r = {"exception": repr(e), "trace": traceback.format_exc()[-1500:]}
        if r is not None:
            fails.append({"case": _jsonable(case), "detail": _jsonable(r)})
            if len(fails) >= max_fail:
                break
        if budget_s is not None and time.time() - t0 > budget_s:
            break
    return {"status": "failed" if fails else "held", "evaluations": n, "distinct": len(distinct),
            "failures": fails, "samples": sample, "wall_s": round(time.time() - t0, 3),
            "backend": "rtc-bounded"}


# ---------------------------------------------------------------------------
def _coverage_start():
    """PYVC_COVERAGE=<dir>: record which lines of /repo's pyphysim are executed natively (sys.monitoring, each line reported once)
    and which statements are interpreted; one json file per obligation process.  Development aid (tools/coverage_report.py)."""
    d = os.environ.get("PYVC_COVERAGE")
    if not d:
        return None
    import sys
    seen = set()
    root = os.path.realpath(os.environ.get("PYVC_REPO", "/repo")) + os.sep + "pyphysim"
    try:
        mon = sys.monitoring
        tool = mon.COVERAGE_ID
        mon.use_tool_id(tool, "pyvc")

        def on_line(code, line):
            fn = code.co_filename
            if fn.startswith(root):
                seen.add((fn[len(root) - 8:], line))
            return mon.DISABLE
        mon.register_callback(tool, mon.events.LINE, on_line)
        mon.set_events(tool, mon.events.LINE)
    except Exception:
        pass
    return d, seen


def _coverage_stop(state, oid):
    if not state:
        return
    import json
    d, seen = state
    try:
        os.makedirs(d, exist_ok=True)
        interp_lines = sorted(interp_mod.COVERAGE) if interp_mod.COVERAGE is not None else []
        with open(os.path.join(d, "%d.json" % os.getpid()), "w") as f:
            json.dump({"obligation": oid, "native": sorted(seen), "interpreted": interp_lines}, f)
    except Exception:
        pass


def _worker(mod, oid, conn):
    try:
        import importlib
        cov = _coverage_start()
        importlib.import_module(mod)
        spec = [s for s in REGISTRY[mod] if s.id == oid][0]
        t0 = time.time()
        try:
            r = spec.fn(**spec.params)
        finally:
            _coverage_stop(cov, oid)
        r.setdefault("wall_s", round(time.time() - t0, 3))
        conn.send(r)
    except BaseException as e:
        conn.send({"status": "error", "error": repr(e), "trace": traceback.format_exc()[-3000:]})
    finally:
        conn.close()


def run_all(mod, specs, jobs=16, progress=None):
    """Run each obligation in its own process (hard wall-clock limit)."""
    ctx = mp.get_context("fork")
    pending = list(specs)
    running = []
    results = {}
    while pending or running:
        while pending and len(running) < jobs:
            s = pending.pop(0)
            pc, cc = ctx.Pipe(duplex=False)
            p = ctx.Process(target=_worker, args=(mod, s.id, cc))
            p.start()
            cc.close()
            running.append((s, p, pc, time.time()))
        still = []
        for (s, p, pc, t0) in running:
            if pc.poll(0.01):
                try:
                    r = pc.recv()
                except EOFError:
                    r = {"status": "error", "error": "worker died"}
                p.join(5)
                results[s.id] = r
                if progress:
                    progress(s, r)
            elif not p.is_alive():
                p.join()
                if pc.poll(0.1):
                    try:
                        r = pc.recv()
                    except EOFError:
                        r = {"status": "error", "error": "worker died (exit %s)" % p.exitcode}
                else:
                    r = {"status": "error", "error": "worker died (exit %s)" % p.exitcode}
                results[s.id] = r
                if progress:
                    progress(s, r)
            elif time.time() - t0 > s.timeout:
                p.kill()
                p.join()
                r = {"status": "unknown", "error": "wall-clock limit %ds exceeded" % s.timeout,
                     "wall_s": round(time.time() - t0, 1)}
                results[s.id] = r
                if progress:
                    progress(s, r)
            else:
                still.append((s, p, pc, t0))
        running = still
        time.sleep(0.02)
    return results
