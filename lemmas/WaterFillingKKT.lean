import Mathlib

open Finset BigOperators

/-- L-KKT (used by C12): an allocation with the water-filling structure `P i = max 0 (mu - 1 / a i)` that spends the
    whole budget maximises `∑ log (1 + a i * p i)` over all non-negative allocations that spend the same budget.
    With `a i = g i * Es / noise` this is the capacity objective of `doWF` (up to the constant factor `1 / log 2`),
    and `1 / a i = noise / (Es * g i)` is the floor subtracted from the water level in the code. -/
theorem waterfilling_optimal (n : ℕ) (a P Q : Fin n → ℝ) (mu Pt : ℝ)
    (ha : ∀ i, 0 < a i) (hPt : 0 < Pt)
    (hP : ∀ i, P i = max 0 (mu - 1 / a i)) (hPs : ∑ i, P i = Pt)
    (hQ : ∀ i, 0 ≤ Q i) (hQs : ∑ i, Q i = Pt) :
    ∑ i, Real.log (1 + a i * Q i) ≤ ∑ i, Real.log (1 + a i * P i) := by
  have hmu : 0 < mu := by
    by_contra hneg
    rw [not_lt] at hneg
    have hz : ∀ i, P i = 0 := by
      intro i
      rw [hP i]
      apply max_eq_left
      have : 0 < 1 / a i := one_div_pos.mpr (ha i)
      linarith
    have : ∑ i, P i = 0 := by simp [hz]
    linarith
  have key : ∀ i, Real.log (1 + a i * Q i) ≤ Real.log (1 + a i * P i) + (Q i - P i) / mu := by
    intro i
    have hPi : 0 ≤ P i := by rw [hP i]; exact le_max_left _ _
    have hp : 0 < 1 + a i * P i := by have := mul_nonneg (ha i).le hPi; linarith
    have hq : 0 < 1 + a i * Q i := by have := mul_nonneg (ha i).le (hQ i); linarith
    have h1 : Real.log ((1 + a i * Q i) / (1 + a i * P i)) ≤ (1 + a i * Q i) / (1 + a i * P i) - 1 :=
      Real.log_le_sub_one_of_pos (div_pos hq hp)
    rw [Real.log_div hq.ne' hp.ne'] at h1
    have h2 : (1 + a i * Q i) / (1 + a i * P i) - 1 = a i * (Q i - P i) / (1 + a i * P i) := by
      field_simp
      ring
    have h3 : a i * (Q i - P i) / (1 + a i * P i) ≤ (Q i - P i) / mu := by
      rcases le_or_gt (mu - 1 / a i) 0 with hle | hgt
      · have hP0 : P i = 0 := by rw [hP i]; exact max_eq_left hle
        have hle' : mu ≤ 1 / a i := by linarith
        have hamu : a i * mu ≤ 1 := by
          calc a i * mu ≤ a i * (1 / a i) := mul_le_mul_of_nonneg_left hle' (ha i).le
            _ = 1 := mul_one_div_cancel (ha i).ne'
        rw [hP0]
        simp only [mul_zero, add_zero, div_one, sub_zero]
        rw [le_div_iff₀ hmu]
        calc a i * Q i * mu = (a i * mu) * Q i := by ring
          _ ≤ 1 * Q i := mul_le_mul_of_nonneg_right hamu (hQ i)
          _ = Q i := one_mul _
      · have hPi' : P i = mu - 1 / a i := by rw [hP i]; exact max_eq_right hgt.le
        have hden : 1 + a i * P i = a i * mu := by
          rw [hPi', mul_sub, mul_one_div_cancel (ha i).ne']
          ring
        rw [hden]
        apply le_of_eq
        have hai : a i ≠ 0 := (ha i).ne'
        field_simp
    linarith
  calc ∑ i, Real.log (1 + a i * Q i)
      ≤ ∑ i, (Real.log (1 + a i * P i) + (Q i - P i) / mu) := Finset.sum_le_sum (fun i _ => key i)
    _ = ∑ i, Real.log (1 + a i * P i) + (∑ i, Q i - ∑ i, P i) / mu := by
        rw [Finset.sum_add_distrib, ← Finset.sum_div, Finset.sum_sub_distrib]
    _ = ∑ i, Real.log (1 + a i * P i) := by rw [hQs, hPs]; simp

/-- the same statement in the code's own terms: gains `g`, symbol energy `Es`, noise variance `nv`, capacity in bits. -/
theorem waterfilling_capacity_optimal (n : ℕ) (g P Q : Fin n → ℝ) (mu Pt Es nv : ℝ)
    (hg : ∀ i, 0 < g i) (hEs : 0 < Es) (hnv : 0 < nv) (hPt : 0 < Pt)
    (hP : ∀ i, P i = max 0 (mu - nv / (Es * g i))) (hPs : ∑ i, P i = Pt)
    (hQ : ∀ i, 0 ≤ Q i) (hQs : ∑ i, Q i = Pt) :
    ∑ i, Real.logb 2 (1 + g i * Es * Q i / nv) ≤ ∑ i, Real.logb 2 (1 + g i * Es * P i / nv) := by
  have ha : ∀ i, 0 < g i * Es / nv := fun i => div_pos (mul_pos (hg i) hEs) hnv
  have hP' : ∀ i, P i = max 0 (mu - 1 / (g i * Es / nv)) := by
    intro i
    rw [hP i]
    congr 2
    have := (hg i).ne'
    field_simp
  have h := waterfilling_optimal n (fun i => g i * Es / nv) P Q mu Pt ha hPt hP' hPs hQ hQs
  have hlog2 : 0 < Real.log 2 := Real.log_pos (by norm_num)
  simp only [Real.logb]
  rw [← Finset.sum_div, ← Finset.sum_div]
  apply div_le_div_of_nonneg_right _ hlog2.le
  have e : ∀ (R : Fin n → ℝ) (i : Fin n), 1 + g i * Es * R i / nv = 1 + g i * Es / nv * R i := by
    intro R i; ring
  simp only [e]
  exact h
