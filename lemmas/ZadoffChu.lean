import Mathlib

open Complex Finset

/-!
L-ZC (used by C18).  `zc N u q n` is the element the real `calcBaseZC(Nzc, u, q)` computes at index `n`
(obligation `zc/generic_element_is_the_definition` proves that from the code for symbolic `Nzc`, `u`, `q`):
`exp(-j π u n (n + 1 + 2q) / N)`.

* `zc_norm`            constant unit amplitude, every `N`, `u`, `q`, `n`
* `zc_periodic`        for odd `N` the sequence has period `N` (so cyclic shifts are shifts of the index)
* `zc_autocorr_zero`   zero cyclic autocorrelation at every lag `k` with `N ∤ u k` (all `0 < k < N` when `gcd(u, N) = 1`,
                       in particular for the prime lengths the library uses)
* `shift_orthogonal`   `Σ_{m<N} exp(2πj Δ m / D) = 0` when `D ∣ N` and `D ∤ Δ`: unit-amplitude user sequences obtained from one
                       root by different cyclic shifts `n_cs/D` are orthogonal whenever the length is a multiple of `D`
-/

/-- the Zadoff-Chu element -/
noncomputable def zc (N : ℕ) (u q : ℤ) (n : ℤ) : ℂ :=
  Complex.exp (-((Real.pi * u * n * (n + 1 + 2 * q) / N : ℝ) : ℂ) * Complex.I)

theorem zc_norm (N : ℕ) (u q n : ℤ) : ‖zc N u q n‖ = 1 := by
  unfold zc
  rw [← Complex.ofReal_neg]
  exact Complex.norm_exp_ofReal_mul_I _

/-- a geometric sum of an `N`-th root of unity different from one vanishes -/
theorem geom_root_sum_zero (N : ℕ) (z : ℂ) (hN : z ^ N = 1) (h1 : z ≠ 1) :
    ∑ n ∈ range N, z ^ n = 0 := by
  have h := geom_sum_mul z N
  rw [hN, sub_self] at h
  have hz : z - 1 ≠ 0 := sub_ne_zero.mpr h1
  exact (mul_eq_zero.mp h).resolve_right hz

/-- `exp(-2πj a / N)` for integers `a`, `N > 0` -/
noncomputable def rootOf (N : ℕ) (a : ℤ) : ℂ := Complex.exp (-(2 * Real.pi * a / N : ℝ) * Complex.I)

theorem rootOf_pow_N (N : ℕ) (hN : 0 < N) (a : ℤ) : rootOf N a ^ N = 1 := by
  unfold rootOf
  rw [← Complex.exp_nat_mul]
  have hN' : (N : ℂ) ≠ 0 := by exact_mod_cast hN.ne'
  have : (N : ℂ) * (-((2 * Real.pi * a / N : ℝ) : ℂ) * Complex.I) = ((-a : ℤ) : ℂ) * (2 * Real.pi * Complex.I) := by
    push_cast
    field_simp
  rw [this]
  exact Complex.exp_int_mul_two_pi_mul_I _

theorem rootOf_ne_one (N : ℕ) (hN : 0 < N) (a : ℤ) (h : ¬ (N : ℤ) ∣ a) : rootOf N a ≠ 1 := by
  unfold rootOf
  intro hexp
  rw [Complex.exp_eq_one_iff] at hexp
  obtain ⟨m, hm⟩ := hexp
  have hN' : (N : ℂ) ≠ 0 := by exact_mod_cast hN.ne'
  have hpi : (Real.pi : ℂ) ≠ 0 := by exact_mod_cast Real.pi_ne_zero
  have hI : Complex.I ≠ 0 := Complex.I_ne_zero
  -- -(2π a / N) I = m (2π I)  ⇒  -a = N m
  have h2 : (-((2 * Real.pi * a / N : ℝ) : ℂ) * Complex.I) = (m : ℂ) * (2 * Real.pi * Complex.I) := hm
  push_cast at h2
  field_simp at h2
  have h3 : (-a : ℤ) = (N : ℤ) * m := by exact_mod_cast h2
  exact h ⟨-m, by linarith⟩

/-- the product of an element with the conjugate of an element `k` places earlier is a constant times a root of unity to the `n` -/
theorem zc_lag (N : ℕ) (hN : 0 < N) (u q : ℤ) (k n : ℕ) :
    zc N u q (n + k) * (starRingEnd ℂ) (zc N u q n) =
      Complex.exp (-((Real.pi * u * k * (k + 1 + 2 * q) / N : ℝ) : ℂ) * Complex.I) * rootOf N (u * k) ^ n := by
  unfold zc rootOf
  rw [← Complex.exp_conj, ← Complex.exp_nat_mul, ← Complex.exp_add, ← Complex.exp_add]
  congr 1
  have hN' : (N : ℂ) ≠ 0 := by exact_mod_cast hN.ne'
  simp only [map_mul, map_neg, Complex.conj_ofReal, Complex.conj_I]
  push_cast
  field_simp
  ring

theorem zc_autocorr_zero (N : ℕ) (hN : 0 < N) (u q : ℤ) (k : ℕ) (hk : ¬ (N : ℤ) ∣ u * k) :
    ∑ n ∈ range N, zc N u q (n + k) * (starRingEnd ℂ) (zc N u q n) = 0 := by
  simp_rw [zc_lag N hN u q k]
  rw [← Finset.mul_sum, geom_root_sum_zero N _ (rootOf_pow_N N hN _) (rootOf_ne_one N hN _ hk), mul_zero]

/-- for odd `N` the sequence has period `N` -/
theorem zc_periodic (N : ℕ) (hN : 0 < N) (hodd : Odd N) (u q n : ℤ) : zc N u q (n + N) = zc N u q n := by
  unfold zc
  obtain ⟨j, hj⟩ := hodd
  have hN' : (N : ℂ) ≠ 0 := by exact_mod_cast hN.ne'
  have hNr : (N : ℝ) ≠ 0 := by exact_mod_cast hN.ne'
  -- exponent(n + N) = exponent(n) + (-(u (n + j + 1 + q))) * 2π I
  have : -((Real.pi * u * ((n + N : ℤ) : ℝ) * (((n + N : ℤ) : ℝ) + 1 + 2 * q) / N : ℝ) : ℂ) * Complex.I
       = -((Real.pi * u * n * (n + 1 + 2 * q) / N : ℝ) : ℂ) * Complex.I
         + ((-(u * (n + j + 1 + q)) : ℤ) : ℂ) * (2 * Real.pi * Complex.I) := by
    have hNj : (N : ℂ) = 2 * j + 1 := by exact_mod_cast hj
    push_cast
    field_simp
    rw [hNj]
    ring
  rw [this, Complex.exp_add, Complex.exp_int_mul_two_pi_mul_I, mul_one]

/-- orthogonality of cyclic shifts: a full period of a non-trivial `D`-th root of unity sums to zero -/
theorem shift_orthogonal (N D : ℕ) (hD : 0 < D) (hdiv : D ∣ N) (delta : ℤ) (hdelta : ¬ (D : ℤ) ∣ delta) :
    ∑ m ∈ range N, rootOf D delta ^ m = 0 := by
  obtain ⟨c, rfl⟩ := hdiv
  apply geom_root_sum_zero
  · rw [pow_mul, rootOf_pow_N D hD, one_pow]
  · exact rootOf_ne_one D hD delta hdelta

/-- a sum over one full period does not depend on where the period starts -/
theorem sum_period_shift (N : ℕ) (g : ℕ → ℂ) (hg : ∀ n, g (n + N) = g n) (l : ℕ) :
    ∑ k ∈ range N, g (l + k) = ∑ k ∈ range N, g k := by
  induction l with
  | zero => simp
  | succ l ih =>
    have h1 : ∑ k ∈ range (N + 1), g (l + k) = ∑ k ∈ range N, g (l + k) + g (l + N) := Finset.sum_range_succ _ N
    have h2 : ∑ k ∈ range (N + 1), g (l + k) = ∑ k ∈ range N, g (l + (k + 1)) + g (l + 0) := Finset.sum_range_succ' _ N
    have h3 : ∑ k ∈ range N, g (l + 1 + k) = ∑ k ∈ range N, g (l + (k + 1)) := by
      apply Finset.sum_congr rfl
      intro k _
      congr 1
      ring
    rw [h3]
    have h4 : g (l + N) = g l := hg l
    simp only [add_zero] at h2
    rw [← ih]
    linear_combination h1 - h2 + h4

theorem rootOf_mul_conj (N : ℕ) (a : ℤ) : rootOf N a * (starRingEnd ℂ) (rootOf N a) = 1 := by
  unfold rootOf
  rw [← Complex.exp_conj, ← Complex.exp_add]
  simp only [map_mul, map_neg, Complex.conj_ofReal, Complex.conj_I]
  rw [show -((2 * Real.pi * a / N : ℝ) : ℂ) * Complex.I + -((2 * Real.pi * a / N : ℝ) : ℂ) * -Complex.I = 0 by ring]
  exact Complex.exp_zero

theorem zc_mul_conj (N : ℕ) (u q n : ℤ) : zc N u q n * (starRingEnd ℂ) (zc N u q n) = 1 := by
  rw [Complex.mul_conj, Complex.normSq_eq_norm_sq, zc_norm]
  simp

/-- flat spectrum: the DFT of a Zadoff-Chu sequence of odd length `N` whose root is coprime to `N` has constant modulus `√N` -/
theorem zc_flat_spectrum (N : ℕ) (hN : 0 < N) (hodd : Odd N) (u q m : ℤ)
    (hcop : ∀ k : ℕ, 0 < k → k < N → ¬ (N : ℤ) ∣ u * k) :
    (∑ n ∈ range N, zc N u q n * rootOf N m ^ n) * (starRingEnd ℂ) (∑ n ∈ range N, zc N u q n * rootOf N m ^ n) = N := by
  set w := rootOf N m with hw
  set f : ℕ → ℂ := fun n => zc N u q n * w ^ n with hf
  have hper : ∀ n, f (n + N) = f n := by
    intro n
    simp only [hf]
    have h1 : zc N u q ((n + N : ℕ) : ℤ) = zc N u q (n : ℤ) := by
      have := zc_periodic N hN hodd u q (n : ℤ)
      push_cast
      exact this
    rw [h1, pow_add, hw, rootOf_pow_N N hN m, mul_one]
  -- one row of the double sum, re-indexed to start at l
  have hrow : ∀ l : ℕ, ∑ n ∈ range N, f n * (starRingEnd ℂ) (f l) = ∑ k ∈ range N, f (l + k) * (starRingEnd ℂ) (f l) := by
    intro l
    have := sum_period_shift N (fun n => f n * (starRingEnd ℂ) (f l))
      (fun n => by show f (n + N) * (starRingEnd ℂ) (f l) = f n * (starRingEnd ℂ) (f l); rw [hper n]) l
    exact this.symm
  -- a term of the re-indexed double sum
  have hterm : ∀ l k : ℕ, f (l + k) * (starRingEnd ℂ) (f l)
      = w ^ k * (zc N u q ((l : ℤ) + k) * (starRingEnd ℂ) (zc N u q l)) := by
    intro l k
    simp only [hf, map_mul, map_pow]
    have hc : w ^ l * (starRingEnd ℂ) w ^ l = 1 := by
      rw [← mul_pow, hw, rootOf_mul_conj, one_pow]
    push_cast
    rw [pow_add]
    linear_combination (zc N u q ((l : ℤ) + k) * (starRingEnd ℂ) (zc N u q l) * w ^ k) * hc
  have hX : (∑ n ∈ range N, f n) * (starRingEnd ℂ) (∑ n ∈ range N, f n)
      = ∑ k ∈ range N, w ^ k * ∑ l ∈ range N, zc N u q ((l : ℤ) + k) * (starRingEnd ℂ) (zc N u q l) := by
    rw [map_sum, Finset.sum_mul_sum, Finset.sum_comm]
    simp_rw [hrow, hterm]
    rw [Finset.sum_comm]
    simp_rw [← Finset.mul_sum]
  change (∑ n ∈ range N, f n) * (starRingEnd ℂ) (∑ n ∈ range N, f n) = N
  rw [hX, Finset.sum_eq_single 0]
  · simp only [pow_zero, one_mul, Nat.cast_zero, add_zero]
    simp_rw [zc_mul_conj]
    simp
  · intro k hk hk0
    have hkN : k < N := Finset.mem_range.mp hk
    rw [zc_autocorr_zero N hN u q k (hcop k (Nat.pos_of_ne_zero hk0) hkN), mul_zero]
  · intro h0
    exact absurd (Finset.mem_range.mpr hN) h0
