import Mathlib

/-- L-UNIT (used by C14): a sum of L complex numbers of modulus one has modulus at most L.
    With z_l = cos a_l + i sin a_l this is `(sum cos a_l)^2 + (sum sin a_l)^2 <= L^2`. -/
theorem unit_vector_sum_bound (L : ℕ) (z : Fin L → ℂ) (h : ∀ l, ‖z l‖ = 1) :
    ‖∑ l, z l‖ ≤ (L : ℝ) := by
  calc ‖∑ l, z l‖ ≤ ∑ l, ‖z l‖ := norm_sum_le _ _
    _ = ∑ _l : Fin L, (1 : ℝ) := by simp [h]
    _ = (L : ℝ) := by simp

/-- real form: c_l^2 + s_l^2 = 1 for all l  ⇒  (Σ c_l)^2 + (Σ s_l)^2 ≤ L^2 -/
theorem unit_vector_sum_bound_real (L : ℕ) (c s : Fin L → ℝ) (h : ∀ l, c l ^ 2 + s l ^ 2 = 1) :
    (∑ l, c l) ^ 2 + (∑ l, s l) ^ 2 ≤ (L : ℝ) ^ 2 := by
  have hz : ∀ l, ‖(⟨c l, s l⟩ : ℂ)‖ = 1 := by
    intro l
    rw [Complex.norm_def, Complex.normSq_mk]
    have := h l
    rw [show c l * c l + s l * s l = c l ^ 2 + s l ^ 2 by ring, this]
    simp
  have hb := unit_vector_sum_bound L (fun l => (⟨c l, s l⟩ : ℂ)) hz
  have hre : (∑ l, (⟨c l, s l⟩ : ℂ)).re = ∑ l, c l := by simp [Complex.re_sum]
  have him : (∑ l, (⟨c l, s l⟩ : ℂ)).im = ∑ l, s l := by simp [Complex.im_sum]
  have hn : ‖∑ l, (⟨c l, s l⟩ : ℂ)‖ ^ 2 = (∑ l, c l) ^ 2 + (∑ l, s l) ^ 2 := by
    rw [Complex.sq_norm, Complex.normSq_apply, hre, him]; ring
  rw [← hn]
  have h0 : (0 : ℝ) ≤ ‖∑ l, (⟨c l, s l⟩ : ℂ)‖ := norm_nonneg _
  nlinarith [hb, h0]
