import Mathlib

/-!
L-FOLD (used by C06).  `V` is the abstract view of a `Result`, `X` an observation, `upd` is `Result.update`,
`mrg` is `Result.merge` and `e` the freshly constructed (empty) result.  The contracts discharged on the real code are

* `hs`    : `upd a x = mrg a (upd e x)`            (update == merge of a fresh singleton)
* `assoc` : `mrg (mrg a b) c = mrg a (mrg b c)`     (merge is associative)
* `unit`  : `mrg a e = a`                           (the empty result is a right unit; not available for MISC results)

From these, every way of splitting a sequence of observations into contiguous chunks, accumulating each chunk in its
own fresh result and merging the chunk results in any association order gives the view of the single result updated
with the whole sequence.
-/

universe u v

variable {V : Type u} {X : Type v}

/-- a merge plan: leaves are chunks (each accumulated in a fresh result), nodes are merges -/
inductive Plan (X : Type v)
  | leaf : List X → Plan X
  | node : Plan X → Plan X → Plan X

namespace Plan

/-- the observations of a plan in order -/
def flat : Plan X → List X
  | leaf c => c
  | node l r => l.flat ++ r.flat

/-- every chunk holds at least one observation -/
def nonempty : Plan X → Prop
  | leaf c => c ≠ []
  | node l r => l.nonempty ∧ r.nonempty

/-- the view obtained by running the plan -/
def eval (upd : V → X → V) (mrg : V → V → V) (e : V) : Plan X → V
  | leaf c => c.foldl upd e
  | node l r => mrg (l.eval upd mrg e) (r.eval upd mrg e)

end Plan

/-- updating `a` with a chunk == merging into `a` the fresh result updated with the chunk -/
theorem fold_eq_merge (upd : V → X → V) (mrg : V → V → V) (e : V)
    (hs : ∀ a x, upd a x = mrg a (upd e x))
    (assoc : ∀ a b c, mrg (mrg a b) c = mrg a (mrg b c))
    (unit : ∀ a, mrg a e = a) (a : V) (c : List X) :
    c.foldl upd a = mrg a (c.foldl upd e) := by
  induction c using List.reverseRecOn with
  | nil => simp [unit]
  | append_singleton c x ih =>
    simp only [List.foldl_append, List.foldl_cons, List.foldl_nil]
    rw [hs (c.foldl upd a) x, ih, assoc, ← hs]

/-- the same without a unit, for chunks with at least one observation (MISC results) -/
theorem fold_eq_merge_nonempty (upd : V → X → V) (mrg : V → V → V) (e : V)
    (hs : ∀ a x, upd a x = mrg a (upd e x))
    (assoc : ∀ a b c, mrg (mrg a b) c = mrg a (mrg b c))
    (a : V) (c : List X) (hc : c ≠ []) :
    c.foldl upd a = mrg a (c.foldl upd e) := by
  induction c using List.reverseRecOn with
  | nil => exact absurd rfl hc
  | append_singleton c x ih =>
    simp only [List.foldl_append, List.foldl_cons, List.foldl_nil]
    by_cases h : c = []
    · subst h
      simpa using hs a x
    · rw [hs (c.foldl upd a) x, ih h, assoc, ← hs]

/-- L-FOLD: every merge plan gives the view of one result updated with all observations in order -/
theorem plan_eval_eq_fold (upd : V → X → V) (mrg : V → V → V) (e : V)
    (hs : ∀ a x, upd a x = mrg a (upd e x))
    (assoc : ∀ a b c, mrg (mrg a b) c = mrg a (mrg b c))
    (unit : ∀ a, mrg a e = a) (p : Plan X) :
    p.eval upd mrg e = p.flat.foldl upd e := by
  induction p with
  | leaf c => rfl
  | node l r ihl ihr =>
    simp only [Plan.eval, Plan.flat, List.foldl_append]
    rw [ihl, ihr]
    exact (fold_eq_merge upd mrg e hs assoc unit _ _).symm

/-- L-FOLD without unit, all chunks non-empty -/
theorem plan_eval_eq_fold_nonempty (upd : V → X → V) (mrg : V → V → V) (e : V)
    (hs : ∀ a x, upd a x = mrg a (upd e x))
    (assoc : ∀ a b c, mrg (mrg a b) c = mrg a (mrg b c))
    (p : Plan X) (hp : p.nonempty) :
    p.eval upd mrg e = p.flat.foldl upd e ∧ p.flat ≠ [] := by
  induction p with
  | leaf c => exact ⟨rfl, hp⟩
  | node l r ihl ihr =>
    obtain ⟨hl, hr⟩ := hp
    obtain ⟨el, _⟩ := ihl hl
    obtain ⟨er, nr⟩ := ihr hr
    refine ⟨?_, ?_⟩
    · simp only [Plan.eval, Plan.flat, List.foldl_append]
      rw [el, er]
      exact (fold_eq_merge_nonempty upd mrg e hs assoc _ _ nr).symm
    · simp only [Plan.flat]
      intro h
      exact nr (List.append_eq_nil_iff.mp h).2

/-- corollary: two plans over the same observations agree (independence of chunking and association) -/
theorem plans_agree (upd : V → X → V) (mrg : V → V → V) (e : V)
    (hs : ∀ a x, upd a x = mrg a (upd e x))
    (assoc : ∀ a b c, mrg (mrg a b) c = mrg a (mrg b c))
    (unit : ∀ a, mrg a e = a) (p q : Plan X) (h : p.flat = q.flat) :
    p.eval upd mrg e = q.eval upd mrg e := by
  rw [plan_eval_eq_fold upd mrg e hs assoc unit p, plan_eval_eq_fold upd mrg e hs assoc unit q, h]
