import Mathlib

/-!
L-ALIGN (used by C10).  Closed-form interference alignment for three users (Cadambe & Jafar).  `Hkl` is the channel from
transmitter `l` to receiver `k` (square matrices over a field, e.g. ℂ).  The contracts discharged on the real code
(`closed_form/structure_of_the_alignment_solution`) say that the solver computes

* `E  = H31⁻¹ H32 (H12⁻¹ H13 (H23⁻¹ H21))`   and takes an eigenvector `v` of `E`  (`E v = μ v`),
* `F2 = H32⁻¹ H31 v`,  `F3 = H23⁻¹ H21 v`  (up to positive scaling, which does not affect the statements below),
* receive filters orthogonal to `H12 F2`, `H21 v`, `H31 v` respectively.

The lemma: the interference is aligned at every receiver, so each of these filters is orthogonal to BOTH interferers.
-/

open Matrix

variable {n : Type*} [Fintype n] [DecidableEq n] {K : Type*} [Field K]

/-- receiver 2 (0-based 1): `H23 F3 = H21 v` -/
theorem aligned_rx2 (H23 H21 : Matrix n n K) (v : n → K) (h23 : IsUnit H23.det) :
    H23.mulVec ((H23⁻¹ * H21).mulVec v) = H21.mulVec v := by
  rw [Matrix.mulVec_mulVec, ← Matrix.mul_assoc, Matrix.mul_nonsing_inv _ h23, Matrix.one_mul]

/-- receiver 3 (0-based 2): `H32 F2 = H31 v` -/
theorem aligned_rx3 (H32 H31 : Matrix n n K) (v : n → K) (h32 : IsUnit H32.det) :
    H32.mulVec ((H32⁻¹ * H31).mulVec v) = H31.mulVec v := by
  rw [Matrix.mulVec_mulVec, ← Matrix.mul_assoc, Matrix.mul_nonsing_inv _ h32, Matrix.one_mul]

/-- receiver 1 (0-based 0): `H13 F3 = μ • H12 F2` -/
theorem aligned_rx1 (H31 H32 H12 H13 H23 H21 : Matrix n n K) (v : n → K) (μ : K)
    (h31 : IsUnit H31.det) (h32 : IsUnit H32.det) (h12 : IsUnit H12.det)
    (hE : (H31⁻¹ * H32 * (H12⁻¹ * H13 * (H23⁻¹ * H21))).mulVec v = μ • v) :
    H13.mulVec ((H23⁻¹ * H21).mulVec v) = μ • H12.mulVec ((H32⁻¹ * H31).mulVec v) := by
  -- multiply the eigen-equation by H12 * H32⁻¹ * H31
  have h := congrArg (fun x => (H12 * (H32⁻¹ * H31)).mulVec x) hE
  simp only [Matrix.mulVec_mulVec, Matrix.mulVec_smul] at h
  have key : H12 * (H32⁻¹ * H31) * (H31⁻¹ * H32 * (H12⁻¹ * H13 * (H23⁻¹ * H21))) = H13 * (H23⁻¹ * H21) := by
    calc H12 * (H32⁻¹ * H31) * (H31⁻¹ * H32 * (H12⁻¹ * H13 * (H23⁻¹ * H21)))
        = H12 * (H32⁻¹ * (H31 * H31⁻¹) * H32) * (H12⁻¹ * H13 * (H23⁻¹ * H21)) := by
          simp only [Matrix.mul_assoc]
      _ = H12 * (H32⁻¹ * H32) * (H12⁻¹ * H13 * (H23⁻¹ * H21)) := by
          rw [Matrix.mul_nonsing_inv _ h31, Matrix.mul_one]
      _ = H12 * (H12⁻¹ * H13 * (H23⁻¹ * H21)) := by
          rw [Matrix.nonsing_inv_mul _ h32, Matrix.mul_one]
      _ = (H12 * H12⁻¹) * H13 * (H23⁻¹ * H21) := by
          simp only [Matrix.mul_assoc]
      _ = H13 * (H23⁻¹ * H21) := by
          rw [Matrix.mul_nonsing_inv _ h12, Matrix.one_mul]
  rw [key] at h
  simpa [Matrix.mulVec_mulVec] using h

/-- a filter orthogonal to the aligned direction is orthogonal to both interferers (receiver 1) -/
theorem nulls_both_rx1 (H31 H32 H12 H13 H23 H21 : Matrix n n K) (v w : n → K) (μ : K)
    (h31 : IsUnit H31.det) (h32 : IsUnit H32.det) (h12 : IsUnit H12.det)
    (hE : (H31⁻¹ * H32 * (H12⁻¹ * H13 * (H23⁻¹ * H21))).mulVec v = μ • v)
    (hw : w ⬝ᵥ H12.mulVec ((H32⁻¹ * H31).mulVec v) = 0) :
    w ⬝ᵥ H13.mulVec ((H23⁻¹ * H21).mulVec v) = 0 := by
  rw [aligned_rx1 H31 H32 H12 H13 H23 H21 v μ h31 h32 h12 hE, dotProduct_smul, hw, smul_zero]
