#!/usr/bin/env python3
"""Write meta.json for the round-2 seeded changes (mutC / mutD) from the detection log ($HOME/detect.log) and the
confirmation log ($HOME/mutant_confirm.log)."""
import json
import os
import re
import sys

ROUND2 = {
 "C01-mutC": ("demodulate caches a column view of the constellation that setPhaseOffset/setConstellation never reset", "demodulate -> setPhaseOffset -> demodulate on one object"),
 "C01-mutD": ("QAM Gray labels built as uint8, so (rows << nbits) + columns wraps modulo 256", "QAM with M >= 1024"),
 "C02-mutC": ("used-subcarrier indexes via argsort of the subcarrier numbers (fftshift/ifftshift mix-up)", "odd FFT size"),
 "C02-mutD": ("TdlImpulseResponse.get_freq_response caches its result ignoring fft_size", "response asked for another FFT size before the equaliser uses it"),
 "C03-mutC": ("SuChannel.corrupt_data tests the path loss for truthiness instead of `is not None`", "path loss exactly 0, time domain"),
 "C03-mutD": ("1-D signal promoted to 1 x n when num_tx_ant == 1 instead of num_rx_ant == 1 (switched direction)", "switched direction, one receive and several transmit antennas, 1-D input"),
 "C04-mutC": ("gmd permutation bookkeeping: invperm[j] = i instead of invperm[i] = j", "5 or more layers"),
 "C04-mutD": ("Blast.set_noise_var ignores an explicit 0.0 (keeps the previous variance)", "set_noise_var(s > 0) then set_noise_var(0.0) on one object"),
 "C05-mutC": ("get_pack_indexes locates float-array values with np.isclose instead of exact lookup", "distinct unpacked values within 1e-8 of each other (stored as a float ndarray)"),
 "C05-mutD": ("simulate() dispatches on `not param_variation_index` instead of `is None`", "simulate(0)"),
 "C06-mutC": ("Result.merge takes the MISC 'replace' branch when self.num_updates == 0 (aliases the operand's arrays)", "CHOICE result merged into an empty one, then another merge/update"),
 "C06-mutD": ("get_pack_indexes locates float values with np.isclose (first match) instead of exact lookup", "combine over grids whose values differ by less than 1e-8"),
 "C07-mutC": ("load_partial_results 'recovers' a leftover .tmp file by renaming it to the real name", "kill inside the first save of a combination's partial file"),
 "C07-mutD": ("_save_to_json removes the target instead of the stale tmp file before writing", "json results file, kill inside the final write"),
 "C08-mutC": ("_update_pathloss_big_matrix skipped when the expanded matrix already has the new channel's shape", "set_pathloss, then re-randomize with another antenna split of equal totals"),
 "C08-mutD": ("corrupt_concatenated_data folds the post-filter into the channel and adds unfiltered noise afterwards", "noise and post-filter both set"),
 "C09-mutC": ("rank of the other users' channel with an absolute tolerance 1e-6", "one user's channel attenuated to 1e-7 while the others are O(1)"),
 "C09-mutD": ("sqrt(iPu) cached at construction and used by the normalised water-filling", "iPu changed after construction, water-filling path"),
 "C10-mutC": ("P setter returns early for None -> None, leaving cached full filters", "solve with default power, read full_W_H, randomizeF without power"),
 "C10-mutD": ("_solve_init sets the power only when initialize_with != 'fix'", "'fix' initialisation with a power different from the stored one"),
 "C11-mutC": ("scalar-noise test isinstance(x, Number) narrowed to isinstance(x, float)", "noise variance given as int / numpy int / float32"),
 "C11-mutD": ("own-stream covariance uses sqrt(P) F instead of full_F", "set_precoders with an explicit full_F different from sqrt(P) F"),
 "C12-mutC": ("result allocated with np.zeros_like(gains): integer gain arrays truncate the powers", "integer-dtype gain vector"),
 "C12-mutD": ("Es dropped from minMu inside the channel-removal loop", "Es != 1 and at least one channel switched off"),
 "C13-mutC": ("PathLossIndoorBase.calc_path_loss does not forward **kargs to calc_path_loss_dB", "METIS PS7 linear query with num_walls >= 1"),
 "C13-mutD": ("free-space C rebuilt in the n setter from a frequency term cached at construction", "fc setter followed by n setter"),
 "C14-mutC": ("time vector of the previous request reused when the request size repeats; skip does not invalidate it", "generate(n), skip(m), generate(n)"),
 "C14-mutD": ("long requests evaluated block by block, trailing partial block dropped", "request size > 65536 that is not a multiple of 65536"),
 "C15-mutC": ("count_bit_errors returns the total when `not axis` (axis=0 treated like None)", "axis=0"),
 "C15-mutD": ("gray2binary shift loop bound `<` instead of `<=`", "operand (or array maximum) exactly a power 2^(2^k)"),
 "C16-mutC": ("QAM single-carrier error rate cached, keyed by the SNR array object", "same SNR array passed again after being changed in place"),
 "C16-mutD": ("PSK M == 2 branch returns Q(sqrt(snr)) instead of Q(sqrt(2 snr))", "general PSK class with order 2"),
 "C17-mutC": ("ndarray encoder writes ravel(order='K') while the decoder reshapes in C order", "multi-dimensional non-C-contiguous arrays"),
 "C17-mutD": ("file-name templating rounds float values to 12 digits", "distinct float parameters that agree to 12 digits"),
 "C18-mutC": ("UeSequence normalises on `if normalize:` while the estimator tests `is True`", "numpy-bool normalisation flag"),
 "C18-mutD": ("OCC estimator reshapes the caller's receive buffer in place (np.asarray instead of .view())", "extra_dimension=False and a second use of the same buffer"),
 "C19-mutC": ("square-grid cluster positions cached in the dict of the hexagon layouts, keyed by num_cells only", "4-cell square and 4-cell hexagon clusters in one process"),
 "C19-mutD": ("move_by_relative_coordinate writes _pos directly, bypassing the overridden pos setters", "populated Cell/Cell3Sec moved with a relative-move method"),
 "C20-mutC": ("chordal distance as sqrt(ncols - ||Q1^H Q2||_F^2): cancellation for (nearly) equal subspaces", "equal subspaces"),
 "C20-mutD": ("gmd guard `d[i] >= sigma_bar` became `>`: 0/0 in the Givens cosine", "exactly repeated singular values"),
}

ROUND3 = {
 "C01-mutE": ("demodulate flattens with ravel(order='K')", "Fortran-ordered / transposed 2-D received arrays"),
 "C01-mutF": ("QAM constellation memoised in a class-level dict and handed out without a copy", "one object's symbols changed in place, then a new QAM of the same order"),
 "C02-mutE": ("get_freq_response 'flat fading' fast path repeats the single tap over all bins (delay ignored)", "profile with exactly one tap at a non-zero delay"),
 "C02-mutF": ("IFFT input work buffer reused between modulate calls, dropped only when fft_size changes", "same object re-configured to fewer used subcarriers, same number of OFDM symbols"),
 "C03-mutE": ("a selection with exactly fft_size entries is treated as 'all carriers'", "full-length selection not in natural order (permutation, reversed slice, repeats)"),
 "C03-mutF": ("1-D signal promotion uses num_tx_antennas regardless of the link direction", "switched direction, one receive and several transmit antennas, 1-D input"),
 "C04-mutE": ("gmd permutation bookkeeping: invperm[j] = i instead of invperm[i] = j", "5 or more layers"),
 "C04-mutF": ("Blast caches the receive filter; set_noise_var(None) does not reset the cache", "noise variance, decode, set_noise_var(None), decode on one object"),
 "C05-mutE": ("get_pack_indexes treats a falsy fixed value (0, 0.0) as not fixed", "lookup with a fixed value of 0"),
 "C05-mutF": ("periodic save moved before the repetition counter is incremented", "> 500 repetitions, interruption after a periodic save, second simulate()"),
 "C06-mutE": ("union of unpacked values cast back to the dtype of the first operand", "overlapping grids with mixed dtype / string width"),
 "C06-mutF": ("Result.merge takes the 'replace' branch when self.num_updates == 0 (aliases the operand's arrays)", "array-valued result merged into an empty one, then another merge/update"),
 "C07-mutE": ("_save_to_json opens the temporary file with exclusive creation ('x')", "json results file, crash inside the final write, then any restart"),
 "C07-mutF": ("_simulate_common_setup clears the runner only if the previous simulation finished", "simulate() interrupted after a completed combination, then simulate() on the same object"),
 "C08-mutE": ("_update_pathloss_big_matrix returns early when the old expansion has the new channel's shape", "path loss set, then re-randomize with another split of equal totals"),
 "C08-mutF": ("init_from_channel_matrix assigns K/Nr/Nt before the second validation", "rejected re-initialisation (ValueError) on a valid object"),
 "C09-mutE": ("rank of the other users' channel with an absolute tolerance 1e-6", "channel scaled to about 1e-7"),
 "C09-mutF": ("sqrt(iPu) cached at construction, used with and without water-filling", "iPu reassigned on a reused object"),
 "C10-mutE": ("P setter returns early for None -> None (cached full filters kept)", "solve with default power, read full_W_H, randomizeF without power"),
 "C10-mutF": ("_solve_finalize restores the norm with norm(new_F) instead of norm(new_full_F) in the stream-reduction branch", "Ns > 1 and one user orders of magnitude weaker"),
 "C11-mutE": ("scalar-noise test isinstance(x, Number) narrowed to isinstance(x, float)", "noise variance given as int / numpy int / float32"),
 "C11-mutF": ("own-stream covariance uses sqrt(P) F instead of full_F", "full_F that does not have power P"),
 "C12-mutE": ("result allocated with np.zeros_like(gains)", "integer-dtype gain vector"),
 "C12-mutF": ("removal loop also requires not np.isclose(sum(Ps), Pt)", "small absolute scale or total power within 1e-5 of a switch-on threshold"),
 "C13-mutE": ("clamp applied through np.nonzero(PL < 0)[0] (first axis only)", "clamp policy with a distance array of 2 or more dimensions"),
 "C13-mutF": ("inverse slope 1/(10 n) cached at construction, not refreshed by the n setter", "n changed through the setter, then an inverse query"),
 "C14-mutE": ("skip folds the time modulo the Doppler period", "skip carrying the time past 1/Fd"),
 "C14-mutF": ("samples summed into the previous samples array (out=) and scaled in place", "two consecutive requests of the same size, earlier block kept by the caller"),
 "C15-mutE": ("PSK constructor applies the phase offset through setPhaseOffset (natural order)", "PSK with a non-zero offset at construction"),
 "C15-mutF": ("gray2binary xor cascade works in place on an ndarray argument", "array argument reused by the caller after the call"),
 "C16-mutE": ("calcTheoreticalPER caches (SNR, BER) keyed by the SNR array object", "same SNR array passed again after an in-place change"),
 "C16-mutF": ("QAM SER passed through np.minimum.accumulate", "unordered / descending / 2-D SNR arrays"),
 "C17-mutE": ("ndarray encoder writes ravel(order='K')", "multi-dimensional non-C-contiguous arrays"),
 "C17-mutF": ("file-name templating rounds floats to 12 decimals", "distinct floats that agree to 12 decimals"),
 "C18-mutE": ("phase ramp of get_shifted_root_seq memoised without the denominator in the key", "SRS then DMRS sequence with the same shift and length in one process"),
 "C18-mutF": ("compute_ls_estimation single-antenna fast path mean(Y / s)", "one transmit antenna with a zero pilot position"),
 "C19-mutE": ("is_point_inside_shape caches its matplotlib Path keyed on private fields", "CellWrap queried, original cell resized/rotated, queried again"),
 "C19-mutF": ("Cell3Sec sectors created with rotation -30 instead of rotation - 30", "3-sector cell constructed with a rotation that is not a multiple of 60 degrees"),
 "C20-mutE": ("gmd drops the invperm[i] = j update of the column swap", "at least 5 singular values in an ordering with a doubly swapped position"),
 "C20-mutF": ("calcProjectionMatrix fast path A A^H / gram[0,0] when A^H A is (close to) diagonal", "orthogonal columns of unequal norm"),
}

ROUND4 = {
 "C01-mutG": ("demodulate flattens with ravel(order='K'), reshapes in C order", "non-C-contiguous 2-D sample arrays (transposed / Fortran order)"),
 "C01-mutH": ("QAM cardinality parity clause `power % 2 != 0` became `== 1` (float log2)", "unsupported orders whose log2 is not an integer (6, 65, 258, ...)"),
 "C02-mutG": ("SISO corrupt_data writes the first sparse tap at delay 0", "tap profile whose first discretised delay is non-zero"),
 "C02-mutH": ("OFDM.demodulate removes the power scale in place on the CP-stripped view of the caller's buffer", "the same received buffer demodulated twice"),
 "C03-mutG": ("get_freq_response reads the cached dense taps; __mul__ copies the object with the stale cache", "path loss + frequency-domain transmission of exactly one block, response read afterwards"),
 "C03-mutH": ("tap merging by np.add.reduceat over first occurrences (assumes sorted delays)", "profile whose delays are not listed in increasing order"),
 "C04-mutG": ("gmd: invperm[j] = i instead of invperm[i] = j", "GMD link with 5 or more layers"),
 "C04-mutH": ("MMSE filter adds the noise through fill_diagonal on H^H H (integer dtype truncates it)", "integer-dtype channel matrix with a positive noise variance"),
 "C05-mutG": ("get_result_values_list takes a strided slice between the first and last index", "3 unpacked parameters with only the middle one fixed"),
 "C05-mutH": ("loop condition evaluated once and refreshed only after a merged repetition", "_keep_going depending on the skipped-repetition count, threshold crossed by a skip"),
 "C06-mutG": ("Result.merge adopts the operand's arrays by reference when num_updates == 0", "array-valued result merged into an empty accumulator, then another merge"),
 "C06-mutH": ("get_pack_indexes falls back to np.isclose when the exact lookup fails", "float grid values closer than 1e-8, partially overlapping result sets"),
 "C07-mutG": ("SimulationParameters.__eq__ treats values of different shape as equal", "fixed array parameter whose length changed between run and restart"),
 "C07-mutH": ("parameters of partial result files verified only for the first file of a simulate()", "restart with a changed grid whose first combination still matches"),
 "C08-mutG": ("_update_pathloss_big_matrix passes K instead of the (Kr, Kt) shape", "ExtInt channel: set_pathloss with external path loss, then randomize / init again"),
 "C08-mutH": ("set_post_filter returns early for the container it already holds", "element of the caller's filter container replaced, set_post_filter again"),
 "C09-mutG": ("sqrt(iPu) cached at construction, used without water-filling", "iPu reassigned on a reused object"),
 "C09-mutH": ("matrix_rank of the other users' channel with tol=1e-8 (absolute)", "channel of small absolute magnitude (1e-10)"),
 "C10-mutG": ("P setter returns early for None -> None before invalidating the full filters", "solve without power, read full_W_H, randomizeF without power, read again"),
 "C10-mutH": ("new_full_F / (norm * original_norm) after stream reduction", "Ns > 1, vector power with one tiny entry different from 1"),
 "C11-mutG": ("_update_pathloss_big_matrix passes only the row count", "ExtInt channel: path loss set, later randomize, then SINR"),
 "C11-mutH": ("interference-plus-noise below eps replaced by eps in _calc_SINR_k", "receive filters / levels scaled so that the denominator is below 2.2e-16"),
 "C12-mutG": ("removal loop also requires not np.isclose(sum(Ps), Pt)", "powers and noise below 1e-8 in absolute scale"),
 "C12-mutH": ("Es dropped from the initial water level", "Es != 1 and a budget near the first switch-off decision"),
 "C13-mutG": ("C for n=1 cached at construction, n setter scales it; fc setter does not refresh the cache", "fc setter followed by n setter on one object"),
 "C13-mutH": ("12*angle**2/theta**2 evaluated in the dtype of the angle array", "int8/int16 angle arrays with |angle| >= 53 degrees"),
 "C14-mutG": ("rays summed with out= into the previous samples array when the size repeats", "two consecutive equal-size requests, earlier block kept"),
 "C14-mutH": ("skip recorded as a pending count that a second skip overwrites", "two consecutive skips before a generation"),
 "C15-mutG": ("gray2binary adaptive prefix-xor stops one stage early", "Gray word exactly 2^(2^j)"),
 "C15-mutH": ("QPSK() builds its constellation through setPhaseOffset (natural order)", "the derived class QPSK()"),
 "C16-mutG": ("QAM Gray index arithmetic in uint8", "square QAM of order >= 1024"),
 "C16-mutH": ("BER memoised in calcTheoreticalPER keyed on the identity of the SNR object", "same SNR array passed again after an in-place change"),
 "C17-mutG": ("ndarray encoder writes ravel(order='K')", "Fortran-ordered / permuted multi-dimensional arrays"),
 "C17-mutH": ("float parameters rounded to 12 decimals in file-name templating", "two float values closer than 5e-13"),
 "C18-mutG": ("shift 0 returns the root array itself; user sequence normalised in place", "shared root, user on shift 0 with normalize=True, then another use of the root"),
 "C18-mutH": ("`is True` test of the normalisation flag became truthiness", "flag given as numpy.bool_ / integer"),
 "C19-mutG": ("move_by_relative_coordinate writes _pos directly", "populated cell moved through a relative-move helper"),
 "C19-mutH": ("square-grid positions memoised in the hexagon-layout dict keyed by num_cells", "4-cell square and hexagon clusters in one process"),
 "C20-mutG": ("gmd: invperm[k1] = j (no-op) instead of invperm[i] = j", "at least 5 singular values"),
 "C20-mutH": ("principal-angle cosines np.isclose to 1 snapped to 1", "close but unequal subspaces (angles below 4.5e-3 rad)"),
}

ROUND5 = {
 "C01-mutI": ("demodulate reads samples with ravel(order='K'), writes indexes back in C order", "non-C-ordered 2-D received arrays"),
 "C01-mutJ": ("PSK phases from a float-step np.arange(phi, phi+2pi, 2pi/M): sometimes M+1 points", "PSK(M).setPhaseOffset(phi) with phi in about [1.72, 2pi)"),
 "C02-mutI": ("used-subcarrier index rewritten as centre / un-centre with fft//2 twice", "odd FFT sizes"),
 "C02-mutJ": ("equaliser keeps its used-subcarrier index array while the number of used subcarriers is unchanged", "equaliser used, then set_parameters to another fft size with the same used count"),
 "C03-mutI": ("tap merging by np.add.reduceat over first occurrences", "profile whose delays are not listed in increasing order"),
 "C03-mutJ": ("SuChannel caches the path-loss-scaled impulse response; not cleared by corrupt_data_in_freq_domain", "path loss, transmission, response read, then a frequency-domain transmission"),
 "C04-mutI": ("gmd: invperm[k1] = j (no-op) instead of invperm[i] = j", "GMD link with 5 or more layers"),
 "C04-mutJ": ("MMSE filter as solve(H H^H + nv I_Nr, H)^H", "Nr > Nt and a vanishing noise variance"),
 "C05-mutI": ("stop rule cached, re-evaluated only after a merged repetition", "_keep_going reading num_skipped_reps"),
 "C05-mutJ": ("get_unpacked_params_list cached; not dropped by params[name] = value", "simulate, item assignment of a new grid, simulate again"),
 "C06-mutI": ("Result memoises (mean, variance); cache not reset by merge()", "statistics read, merge, statistics read again"),
 "C06-mutJ": ("get_pack_indexes looks float values up with np.isclose(rtol=1e-9)", "grids with values differing in the last bits (3*0.1 vs 0.3)"),
 "C07-mutI": ("ignored-key test `key not in (\"rep_max\")` (a string: substring test)", "changed parameter whose name is a substring of rep_max (p, m, x, rep, max)"),
 "C07-mutJ": ("os.replace moved inside the with-block of the temporary file", "hard kill between rename and close"),
 "C08-mutI": ("_update_pathloss_big_matrix skipped when the expanded matrix already has the channel's shape", "re-randomize with another split of equal totals after set_pathloss"),
 "C08-mutJ": ("noise branch restructured: noise_var == 0.0 takes neither branch", "noisy block, noise_var = 0.0, another block (last_noise stale)"),
 "C09-mutI": ("EnhancedBD memoises the ext-interference covariance by channel object identity", "same precoder object and channel object across realisations"),
 "C09-mutJ": ("power scaling with the spectral norm instead of Frobenius in fixed/naive reduction", "2 or more kept streams"),
 "C10-mutI": ("receive filters shrunk with enumerate() instead of zip(mod_users, ...)", "stream reduction for a user that is not user 0"),
 "C10-mutJ": ("_calc_Q_impl reads the channel without path loss", "path loss set, leakage-based iterative solver"),
 "C11-mutI": ("path loss not re-expanded when the new channel has the same total antenna counts", "init, set_pathloss, init with another per-user split of equal totals"),
 "C11-mutJ": ("sum capacity as log2(prod(1 + SINR))", "total above 1024 bit (product overflows)"),
 "C12-mutI": ("Es multiplied into the caller's gain array in place on a sorted fast path", "Es != 1, already-descending float gains, second call on the same array"),
 "C12-mutJ": ("closed-form water level (Pt + sum inv)/k, powers mu - inv", "noise/(Es g) larger than about 1e7 times the budget"),
 "C13-mutI": ("METIS LOS/NLOS masks replaced by np.nonzero(...)[0]", "2-D distance / wall-count grids with mixed rows"),
 "C13-mutJ": ("free-space C refreshed lazily by the loss query only", "setter, then distance-for-a-loss query before any loss query"),
 "C14-mutI": ("rays summed with out= into the previous block when the size repeats", "equal-sized consecutive requests, earlier block kept"),
 "C14-mutJ": ("request start snapped to the grid with int(t/Ts + 1e-9)", "positions beyond 2^24 samples after a skip"),
 "C15-mutI": ("lattice offsets built by np.roll after the Gray permutation", "PSK with an offset that is a multiple of 2pi/M"),
 "C15-mutJ": ("count_bit_errors casts the second operand to the first's dtype", "narrow integer dtype first, wider values second"),
 "C16-mutI": ("PSK SER applies sin(pi/M) as a dB shift in place on the caller's SNR array", "float SNR array reused across calls"),
 "C16-mutJ": ("class-level min-distance dict keyed by M, read by the QAM formula", "QAM(M), then PSK(M), then a query on the QAM"),
 "C17-mutI": ("ndarray encoder writes ravel(order='K')", "non-C-ordered multi-dimensional arrays"),
 "C17-mutJ": ("derived file name memoised per template", "save, params changed in place, save again with the same template"),
 "C18-mutI": ("shift 0 returns the root array itself; user sequence normalised in place", "shared root, shift-0 user with normalize=True, then another user"),
 "C18-mutJ": ("batched LS allocates its output with the pilots' dtype", "real pilots, batched call, complex channel"),
 "C19-mutI": ("Cell3Sec radius setter sizes the sectors before storing the new radius", "radius shrunk, then users added in a sector"),
 "C19-mutJ": ("distance matrix reads the construction-time cell positions", "cell moved after construction"),
 "C20-mutI": ("reflect caches I - 2Q built in place on oQ", "reflect, then oProject on the same object"),
 "C20-mutJ": ("gmd without invperm: perm[k1] = i", "5 or more singular values"),
}


ROUND6 = {
 "C01-mutK": ("demodulate processes long frames block-wise (M x N distance matrix capped at 2^22); the trailing partial block is never demodulated", "one demodulate call with more than 2^22 / M samples and a length that is no multiple of the block"),
 "C01-mutL": ("PSK Gray permutation via argsort(binary2gray(arange(M))): the IndexError that rejected non-powers of two is gone", "PSK(6), PSK(7), PSK(13) ... (orders on which the float assert 2**log2(M) == M passes by luck)"),
 "C02-mutK": ("OFDM.set_parameters stores fft_size / cp_size before validating the used-subcarrier count", "set_parameters rejected for its used count (ValueError) with another fft/cp, then the same object keeps being used"),
 "C02-mutL": ("one-tap equaliser divides via conj(H) / (|H|^2 + eps)", "a used subcarrier in a deep fade (|H| < 1e-5) or a tiny overall gain (150 dB path loss)"),
 "C03-mutK": ("frequency-domain transmission turns the subcarrier selection into a boolean mask (ascending, duplicates dropped)", "a selection that is not ascending and unique (wrapped range, descending list, repeated carrier)"),
 "C03-mutL": ("corrupt_data writes its output into a per-object buffer reused while the shape repeats", "two equal-sized transmissions through one channel object, the earlier output still in use"),
 "C04-mutK": ("zero-forcing filter computed with np.linalg.pinv(channel, rcond=1e-6)", "full-column-rank channel with condition number above 1e6"),
 "C04-mutL": ("Alamouti decoder vectorised, conjugating the second time slots in place on the caller's received array", "complex128 received samples used a second time (second decode / second receiver)"),
 "C05-mutK": ("unpacked_parameters property sorted in natural order while get_unpacked_params_list keeps plain sorted order", "two unpacked parameters with numbered names ('gain2', 'gain10') and a lookup by fixed values"),
 "C05-mutL": ("a skipped repetition breaks out of the repetition loop once skips exceed 10 x rep_max", "a combination whose skip rate exceeds 90 %"),
 "C06-mutK": ("combine_simulation_results merges pairwise by position when both operands have the same unpacked values", "both operands on the same grid stored in non-ascending order (SNR = [10, 0, 5])"),
 "C06-mutL": ("merge_all_results merges the stored results pairwise with zip instead of into the last stored result", "results for two or more variations appended to one object, then a single-valued set merged in"),
 "C07-mutK": ("the repetition loop saves the partial results on KeyboardInterrupt before re-raising", "an interrupt between merge_all_results and the increment of the repetition counter"),
 "C07-mutL": ("SimulationParameters.__eq__ compares floating-point values with np.allclose", "restart with a float parameter changed by less than allclose's tolerances (1e-9 -> 4e-9, 2.4e9 -> 2.40002e9)"),
 "C08-mutK": ("get_Hk caches the per-receiver row split; the ext-int set_pathloss override does not drop the cache", "ext-int object: get_Hk read, set_pathloss, get_Hk read again"),
 "C08-mutL": ("set_pathloss no longer freezes the caller's path-loss array it keeps by reference", "an element of the caller's array (or of channel.pathloss) overwritten in place"),
 "C09-mutK": ("BD precoder assembled in arrays pre-allocated with the channel's dtype", "channel matrix stored with an integer dtype"),
 "C09-mutL": ("scaled precoder written into a work array reused while the channel size repeats", "two calls on one object with same-size channels, the earlier solution kept"),
 "C10-mutK": ("iterative solvers keep the caller's Ns array (np.asarray) instead of a copy", "Ns given as an integer ndarray that the caller reuses after solve"),
 "C10-mutL": ("full_W_H falls back to W_H when |det(W^H H F)| < 1e-12 (absolute)", "two or more streams at small absolute power (P = 1 mW with 100 dB path loss)"),
 "C11-mutK": ("external-interference covariance returns zeros when np.isclose(pe, 0)", "external interference power below 1e-8 in absolute units"),
 "C11-mutL": ("solver memoises the first part of the interference covariance; not cleared when the channel object changes", "SINR query, channel.randomize / set_pathloss with precoders kept, second query"),
 "C12-mutK": ("gains floored at machine epsilon before water-filling", "positive gains below 2.2e-16 (linear path-loss-scale gains)"),
 "C12-mutL": ("module-level cache of recent solutions returns the stored allocation array by reference", "result modified in place by the caller, then the same problem asked again"),
 "C13-mutK": ("Okumura-Hata range checks moved after the assignment in the setters", "a rejected parameter change (exception caught) followed by further use of the object"),
 "C13-mutL": ("linear2dB floors its argument at 1e-20", "which_distance for a linear path loss beyond 200 dB"),
 "C14-mutK": ("integer sample counter; skip adds the raw argument", "skip counts given as narrow numpy integer scalars (uint8 / int16 / int32)"),
 "C14-mutL": ("per-ray rotations cached in a dict that copy.copy shares between generators", "shallow copy of a generator, one of the two re-shaped, equal block sizes requested from both"),
 "C15-mutK": ("xor of arrays through np.bitwise_xor(np.asarray(a, dtype=int), ...)", "uint64 arrays holding values of 2^63 and above"),
 "C15-mutL": ("count_bit_errors sums long frames block-wise; flat[-0:] adds the whole array again", "axis=None and a total size that is a multiple of 65536 (and larger than it)"),
 "C16-mutK": ("PER replaced by packet_length * BER when BER < 1e-8", "high SNR together with a long packet (1e6 bits and more)"),
 "C16-mutL": ("QPSK class overrides the BER with Q(sqrt(2 snr)) (per-bit instead of per-symbol SNR)", "the derived class QPSK()"),
 "C17-mutK": ("SimulationParameters.__getstate__ leaves the parent parameters out of pickles", "an unpacked variation (or results holding one) saved through pickle"),
 "C17-mutL": ("JSON encoder writes sorted(set)", "a set mixing strings / None with numbers"),
 "C18-mutK": ("prime table generated by trial division with divisor*divisor < number (squares of primes slip in)", "size 540 (45 PRBs): base length 529 = 23^2 instead of 523"),
 "C18-mutL": ("estimator keeps its zero-padded delay-domain buffer between calls and rewrites only the kept taps", "two calls of the same shape on one estimator, the second with fewer kept taps"),
 "C19-mutK": ("vertical-edge test of get_border_point became np.isclose(v0.real, v1.real) (relative to the x coordinate)", "a cell small compared with its x coordinate (|x| / radius about 1e5 and more)"),
 "C19-mutL": ("add_random_user draws one batch of 32 candidates and takes argmax(valid) without retry", "low acceptance: square cells with min_dist_ratio 0.65..0.7"),
 "C20-mutK": ("dBm2Linear as dB2Linear(valueIndBm - 30)", "dBm values in an unsigned numpy container below 30 dBm"),
 "C20-mutL": ("whitening clips the eigenvalues at 1e-12", "full-rank covariance of small absolute scale (interference plus noise in Watt)"),
}

ROUND7 = {
 "C01-mutM": ("PSK.demodulate override with an M == 2 fast path (sign detector, phase offset ignored)", "PSK(2, phi != 0) (pi/2-BPSK)"),
 "C01-mutN": ("power-of-two test M & (M - 1) together with linspace phases: PSK(0) is no longer rejected", "the unsupported cardinality 0"),
 "C02-mutM": ("FFT window starts cp_size // 4 inside the prefix, compensated by a linear phase", "channel memory in the last quarter of the prefix"),
 "C03-mutM": ("in-place TdlImpulseResponse.__imul__; SuChannel.get_last_impulse_response rescales the stored response on every read", "path loss set and the reported response read more than once"),
 "C03-mutN": ("SISO flat-fading fast path taken when num_taps == 1 (not when the memory is 0)", "profile with exactly one tap at a non-zero delay"),
 "C04-mutM": ("Alamouti.set_channel_matrix stores the channel before checking Nt == 2", "rejected channel (ValueError caught), then encode / decode on the same object"),
 "C04-mutN": ("MRT precoder as conj(h)/|h| with a zero guard: a zero coefficient gets weight 0", "channel vector with an exactly zero entry"),
 "C05-mutM": ("stop rule tested with `is not False`", "_keep_going returning numpy.bool_(False), 0 or None"),
 "C05-mutN": ("combinations created with copy_params_dict=False share their mutable values", "user code modifying a list / array parameter of its combination in place"),
 "C06-mutM": ("combine_simulation_results copies one empty Result shallowly for every variation (shared choice-count array)", "CHOICE results over more than one combination"),
 "C06-mutN": ("merge_all_results guard `item in other_names`: num_skipped_reps merged twice", "both sets hold num_skipped_reps and self is not empty"),
 "C07-mutM": ("periodic save moved inside the try, before the repetition counter is incremented", "rep_max > 500 and an interruption after a periodic save"),
 "C07-mutN": ("load_partial_results refuses only when a list of differing CURRENT parameter names is non-empty", "restart after a parameter was removed from the configuration"),
 "C08-mutM": ("last_noise replaced by the post-filtered noise", "noise and post filters together"),
 "C08-mutN": ("randomize keeps the caller's integer Nr / Nt arrays (np.asarray)", "the caller updates its antenna-count array in place afterwards"),
 "C09-mutM": ("EnhancedBD metric configuration dict became a class attribute updated in place", "two EnhancedBD objects configured with different stream counts"),
 "C09-mutN": ("calc_receive_filter uses inv for square effective channels", "water-filling at low SNR (a stream without power)"),
 "C10-mutM": ("P setter assigns the vector before validating it", "rejected power vector (ValueError caught), then the object keeps being used"),
 "C11-mutM": ("ext-int covariance takes the interferer's columns from sum(Nr) instead of sum(Nt)", "total receive antennas != total transmit antennas"),
 "C11-mutN": ("solver's interference sum loops over the receiving user's stream count", "users with different stream counts"),
 "C12-mutM": ("channel-removal loop guard dLast > 1 (off by one)", "so little power that only the best channel should be used"),
 "C12-mutN": ("water level read from the caller's order (mu = P[0] + floor[0])", "input not sorted best-first with a switched-off first channel"),
 "C13-mutM": ("raise / clamp policy applied before the shadowing is added", "shadowing on and a short link"),
 "C13-mutN": ("wall counts expanded with np.resize instead of broadcasting", "wall-count array with a trailing axis of size 1"),
 "C14-mutM": ("skip with an optional default: `(num_samples or 1)`", "a skip of exactly 0 samples"),
 "C14-mutN": ("shape setter draws the phases through an optional argument whose None means 'current shape'", "shape set back to None on a running generator"),
 "C15-mutM": ("gray2binary shift loop clamps shifts to width - 1 bits", "unsigned 8 / 32-bit values with the top bit set"),
 "C15-mutN": ("count_bit_errors counts bit planes up to level2bits(largest index)", "largest occurring index an exact power of two"),
 "C16-mutM": ("PER derives its BER as SER / K", "QAM at low to moderate SNR"),
 "C16-mutN": ("setConstellation validates the size after updating M and K", "rejected table (ValueError caught), then the modulator keeps being used"),
 "C17-mutM": ("Result._to_dict writes an empty value list for MISC results", "MISC result with accumulate_values=True saved as JSON"),
 "C17-mutN": ("extension-less load_from_file searches the formats in sorted order (.json before .pickle)", "an older sibling .json next to the .pickle just saved"),
 "C18-mutM": ("cyclic extension by tiling and trimming with [:size - n]", "extension to an exact multiple of the base length"),
 "C18-mutN": ("estimator fast path when no tap is discarded, returning before the normalisation factor", "normalised sequence, size multiplier 1, window >= allocation"),
 "C19-mutM": ("distance matrix as sqrt(|u|^2 + |c|^2 - 2 u.c)", "cluster far from the origin relative to the cell size"),
 "C19-mutN": ("containment as a convex half-plane test; CellWrap of a 3-sector cell not overridden", "CellWrap around a Cell3Sec (concave outline)"),
 "C20-mutM": ("update_inv_sum_diag shortcut through eigh for a constant diagonal", "constant diagonal with a non-Hermitian matrix"),
 "C20-mutN": ("least_right_singular_vectors slices reversed views (S no longer indexed by V's columns)", "wide matrix with n >= columns - rows"),
}

def main():
    det, conf = {}, {}
    for line in open(os.path.expanduser("~/detect.log")):           # later lines (re-runs) override earlier ones
        m = re.match(r"(\S+) exit=(\d*) confirmed_inputs=(\d+) obligations=(.*)", line.strip())
        if m:
            det[m.group(1)] = {"exit": m.group(2), "confirmed_inputs": int(m.group(3)), "obligations": [o for o in m.group(4).split(",") if o]}
    p = os.path.expanduser("~/mutant_confirm.log")
    if os.path.exists(p):
        for line in open(p):
            parts = line.split()
            if len(parts) >= 3 and parts[0].startswith("C"):
                conf[parts[0]] = line.strip()
    n = 0
    both = dict(ROUND2)
    both.update(ROUND3)
    both.update(ROUND4)
    both.update(ROUND5)
    both.update(ROUND6)
    both.update(ROUND7)
    for mid, (what, needs) in sorted(both.items()):
        d = "/verif/seeded/%s" % mid
        if not os.path.isdir(d):
            print("missing", d)
            continue
        dd = det.get(mid, {})
        old = {}
        if os.path.exists(os.path.join(d, "meta.json")):
            try:
                old = json.load(open(os.path.join(d, "meta.json")))
            except Exception:
                old = {}
        kinds = []
        for o in dd.get("obligations", []):
            kinds.append(o)
        meta = {
            "property": mid[:3], "name": mid, "round": 7 if mid in ROUND7 else 6 if mid in ROUND6 else 5 if mid in ROUND5 else 4 if mid in ROUND4 else 3 if mid in ROUND3 else 2,
            "what_changed": what, "needs_to_manifest": needs,
            "caught_by": dd.get("obligations", []),
            "check_exit_with_change_applied": dd.get("exit"),
            "violations_with_failing_input_replayed_on_real_code": dd.get("confirmed_inputs"),
            "origin": "independent sub-agent given only the property text and a private worktree of /repo (HEAD with the fix: commits)",
            "confirmed_by_me": {
                "how": "tools/confirm_mutants.sh in a scratch worktree of /repo HEAD: git apply patch.diff; demo.py exit status with and "
                       "without the patch; tools/baseline_check.py (full pytest run, every BASELINE stable_pass test must pass)",
                "result": conf.get(mid) or (old.get("confirmed_by_me") or {}).get("result") or "see ~/mutant_confirm.log of the session",
            },
            "detection_run": "tools/try_mutant.sh seeded/%s/patch.diff %s (git -C /repo apply; ./check; git -C /repo checkout -- .); the recorded run "
                             "used tools/detect_all_wt.sh (the same on a scratch worktree of /repo's HEAD, check pointed at it with PYVC_REPO)" % (mid, mid[:3]),
        }
        json.dump(meta, open(os.path.join(d, "meta.json"), "w"), indent=1)
        n += 1
    print("meta.json written for", n, "changes")


if __name__ == "__main__":
    main()
