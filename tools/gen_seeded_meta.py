#!/usr/bin/env python3
"""Write meta.json for the round-2 seeded changes (mutC / mutD) from the detection log ($HOME/detect.log) and the
confirmation log ($HOME/mutant_confirm.log)."""
import json
import os
import re
import sys

ROUND2 = {
 "C01-mutC": ("demodulate caches a column view of the constellation that setPhaseOffset/setConstellation never reset", "demodulate -> setPhaseOffset -> demodulate on one object"),
 "C01-mutD": ("QAM Gray labels built as uint8, so (rows << nbits) + columns wraps modulo 256", "QAM with M >= 1024"),
 "C02-mutC": ("used-subcarrier indexes via argsort of the subcarrier numbers (fftshift/ifftshift mix-up)", "odd FFT size"),
 "C02-mutD": ("TdlImpulseResponse.get_freq_response caches its result ignoring fft_size", "response asked for another FFT size before the equaliser uses it"),
 "C03-mutC": ("SuChannel.corrupt_data tests the path loss for truthiness instead of `is not None`", "path loss exactly 0, time domain"),
 "C03-mutD": ("1-D signal promoted to 1 x n when num_tx_ant == 1 instead of num_rx_ant == 1 (switched direction)", "switched direction, one receive and several transmit antennas, 1-D input"),
 "C04-mutC": ("gmd permutation bookkeeping: invperm[j] = i instead of invperm[i] = j", "5 or more layers"),
 "C04-mutD": ("Blast.set_noise_var ignores an explicit 0.0 (keeps the previous variance)", "set_noise_var(s > 0) then set_noise_var(0.0) on one object"),
 "C05-mutC": ("get_pack_indexes locates float-array values with np.isclose instead of exact lookup", "distinct unpacked values within 1e-8 of each other (stored as a float ndarray)"),
 "C05-mutD": ("simulate() dispatches on `not param_variation_index` instead of `is None`", "simulate(0)"),
 "C06-mutC": ("Result.merge takes the MISC 'replace' branch when self.num_updates == 0 (aliases the operand's arrays)", "CHOICE result merged into an empty one, then another merge/update"),
 "C06-mutD": ("get_pack_indexes locates float values with np.isclose (first match) instead of exact lookup", "combine over grids whose values differ by less than 1e-8"),
 "C07-mutC": ("load_partial_results 'recovers' a leftover .tmp file by renaming it to the real name", "kill inside the first save of a combination's partial file"),
 "C07-mutD": ("_save_to_json removes the target instead of the stale tmp file before writing", "json results file, kill inside the final write"),
 "C08-mutC": ("_update_pathloss_big_matrix skipped when the expanded matrix already has the new channel's shape", "set_pathloss, then re-randomize with another antenna split of equal totals"),
 "C08-mutD": ("corrupt_concatenated_data folds the post-filter into the channel and adds unfiltered noise afterwards", "noise and post-filter both set"),
 "C09-mutC": ("rank of the other users' channel with an absolute tolerance 1e-6", "one user's channel attenuated to 1e-7 while the others are O(1)"),
 "C09-mutD": ("sqrt(iPu) cached at construction and used by the normalised water-filling", "iPu changed after construction, water-filling path"),
 "C10-mutC": ("P setter returns early for None -> None, leaving cached full filters", "solve with default power, read full_W_H, randomizeF without power"),
 "C10-mutD": ("_solve_init sets the power only when initialize_with != 'fix'", "'fix' initialisation with a power different from the stored one"),
 "C11-mutC": ("scalar-noise test isinstance(x, Number) narrowed to isinstance(x, float)", "noise variance given as int / numpy int / float32"),
 "C11-mutD": ("own-stream covariance uses sqrt(P) F instead of full_F", "set_precoders with an explicit full_F different from sqrt(P) F"),
 "C12-mutC": ("result allocated with np.zeros_like(gains): integer gain arrays truncate the powers", "integer-dtype gain vector"),
 "C12-mutD": ("Es dropped from minMu inside the channel-removal loop", "Es != 1 and at least one channel switched off"),
 "C13-mutC": ("PathLossIndoorBase.calc_path_loss does not forward **kargs to calc_path_loss_dB", "METIS PS7 linear query with num_walls >= 1"),
 "C13-mutD": ("free-space C rebuilt in the n setter from a frequency term cached at construction", "fc setter followed by n setter"),
 "C14-mutC": ("time vector of the previous request reused when the request size repeats; skip does not invalidate it", "generate(n), skip(m), generate(n)"),
 "C14-mutD": ("long requests evaluated block by block, trailing partial block dropped", "request size > 65536 that is not a multiple of 65536"),
 "C15-mutC": ("count_bit_errors returns the total when `not axis` (axis=0 treated like None)", "axis=0"),
 "C15-mutD": ("gray2binary shift loop bound `<` instead of `<=`", "operand (or array maximum) exactly a power 2^(2^k)"),
 "C16-mutC": ("QAM single-carrier error rate cached, keyed by the SNR array object", "same SNR array passed again after being changed in place"),
 "C16-mutD": ("PSK M == 2 branch returns Q(sqrt(snr)) instead of Q(sqrt(2 snr))", "general PSK class with order 2"),
 "C17-mutC": ("ndarray encoder writes ravel(order='K') while the decoder reshapes in C order", "multi-dimensional non-C-contiguous arrays"),
 "C17-mutD": ("file-name templating rounds float values to 12 digits", "distinct float parameters that agree to 12 digits"),
 "C18-mutC": ("UeSequence normalises on `if normalize:` while the estimator tests `is True`", "numpy-bool normalisation flag"),
 "C18-mutD": ("OCC estimator reshapes the caller's receive buffer in place (np.asarray instead of .view())", "extra_dimension=False and a second use of the same buffer"),
 "C19-mutC": ("square-grid cluster positions cached in the dict of the hexagon layouts, keyed by num_cells only", "4-cell square and 4-cell hexagon clusters in one process"),
 "C19-mutD": ("move_by_relative_coordinate writes _pos directly, bypassing the overridden pos setters", "populated Cell/Cell3Sec moved with a relative-move method"),
 "C20-mutC": ("chordal distance as sqrt(ncols - ||Q1^H Q2||_F^2): cancellation for (nearly) equal subspaces", "equal subspaces"),
 "C20-mutD": ("gmd guard `d[i] >= sigma_bar` became `>`: 0/0 in the Givens cosine", "exactly repeated singular values"),
}


def main():
    det, conf = {}, {}
    for line in open(os.path.expanduser("~/detect.log")):
        m = re.match(r"(\S+) exit=(\d*) confirmed_inputs=(\d+) obligations=(.*)", line.strip())
        if m:
            det[m.group(1)] = {"exit": m.group(2), "confirmed_inputs": int(m.group(3)), "obligations": [o for o in m.group(4).split(",") if o]}
    p = os.path.expanduser("~/mutant_confirm.log")
    if os.path.exists(p):
        for line in open(p):
            parts = line.split()
            if len(parts) >= 3 and parts[0].startswith("C"):
                conf[parts[0]] = line.strip()
    n = 0
    for mid, (what, needs) in sorted(ROUND2.items()):
        d = "/verif/seeded/%s" % mid
        if not os.path.isdir(d):
            print("missing", d)
            continue
        dd = det.get(mid, {})
        kinds = []
        for o in dd.get("obligations", []):
            kinds.append(o)
        meta = {
            "property": mid[:3], "name": mid, "round": 2,
            "what_changed": what, "needs_to_manifest": needs,
            "caught_by": dd.get("obligations", []),
            "check_exit_with_change_applied": dd.get("exit"),
            "violations_with_failing_input_replayed_on_real_code": dd.get("confirmed_inputs"),
            "origin": "independent sub-agent given only the property text and a private worktree of /repo (HEAD with the fix: commits)",
            "confirmed_by_me": {
                "how": "tools/confirm_mutants.sh in a scratch worktree of /repo HEAD: git apply patch.diff; demo.py exit status with and "
                       "without the patch; tools/baseline_check.py (full pytest run, every BASELINE stable_pass test must pass)",
                "result": conf.get(mid, "see ~/mutant_confirm.log of the session"),
            },
            "detection_run": "tools/try_mutant.sh seeded/%s/patch.diff %s (git -C /repo apply; ./check; git -C /repo checkout -- .)" % (mid, mid[:3]),
        }
        json.dump(meta, open(os.path.join(d, "meta.json"), "w"), indent=1)
        n += 1
    print("meta.json written for", n, "changes")


if __name__ == "__main__":
    main()
