#!/bin/bash
# tools/try_wt.sh <patch> <Cxx> [args]: development helper - apply a change to the scratch worktree /tmp/wtclean (not /repo), run the check there
patch=$1; prop=$2; shift 2
WT=${WT:-/tmp/wtclean}
[ -d $WT ] || git -C /repo worktree add -q --detach $WT HEAD
git -C $WT checkout -q -- . ; git -C $WT apply "$patch" || { echo "patch does not apply"; exit 9; }
cd /verif && PYVC_REPO=$WT ./check "$prop" --no-evidence "$@" 2>&1 | grep -v "conda\|KNOWN-FINDING" | tail -8 | cut -c1-300
git -C $WT checkout -q -- .
