#!/bin/bash
# tools/try2.sh Cxx : run the check of Cxx against round-2 candidate changes in /tmp/wt2/out/Cxx/mut{C,D}
p=$1; shift
for m in mutC mutD; do
  f=/tmp/wt2/out/$p/$m/patch.diff
  [ -f $f ] || { echo "$p $m: no patch"; continue; }
  echo "== $p $m"
  /verif/tools/try_mutant.sh $f $p "$@" 2>&1 | grep -v conda | tail -7 | cut -c1-260
done
git -C /repo status --short | head -3
