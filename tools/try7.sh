#!/bin/bash
# tools/try7.sh Cxx... : development helper - run the check of each Cxx against the round-7 candidate changes in /tmp/wt7/out/Cxx/mut{M,N}
# on the scratch worktree /tmp/wtclean (never /repo); one summary per change
for p in "$@"; do
for m in mutM mutN; do
  f=/tmp/wt7/out/$p/$m/patch.diff
  [ -f $f ] || { echo "== $p $m: no patch"; continue; }
  echo "== $p $m"
  /verif/tools/try_wt.sh $f $p 2>&1 | grep -v conda | tail -6 | cut -c1-260
done
done
