#!/bin/bash
# tools/detect_all_wt.sh [filter-regex] [workers]: like detect_all.sh, but never touches /repo: every seeded change is applied to a scratch
# worktree of /repo's HEAD (one per worker, under /tmp) and the check is pointed at it with PYVC_REPO.  One line per change in $HOME/detect.log:
#   <id> exit=<code> confirmed_inputs=<n> obligations=<violated obligations>
filter=${1:-.}; workers=${2:-3}
LOG=$HOME/detect.log
ids=$(ls /verif/seeded | grep -E "$filter")
worker() {
  w=$1; shift
  WT=/tmp/wtdet$w
  rm -rf $WT; git -C /repo worktree prune; git -C /repo worktree add -q --detach $WT HEAD || exit 1
  for id in "$@"; do
    prop=${id%%-*}
    git -C $WT checkout -q -- . ; git -C $WT apply /verif/seeded/$id/patch.diff 2>/dev/null || { echo "$id PATCH-DOES-NOT-APPLY" >> $LOG; continue; }
    out=$(cd /verif && PYVC_REPO=$WT ./check $prop --no-evidence 2>&1 | grep -v "conda\|KNOWN-FINDING"; echo "check exit=${PIPESTATUS[0]}")
    code=$(echo "$out" | grep -o "check exit=[0-9]*" | tail -1 | cut -d= -f2)
    viol=$(echo "$out" | grep "^VIOLATION" | grep -o "obligation=[^ ]*" | sed 's/obligation=//' | sort -u | tr '\n' ',')
    nofail=$(echo "$out" | grep "^VIOLATION" | grep -vc "no-failing-input-found")
    echo "$id exit=$code confirmed_inputs=$nofail obligations=$viol" >> $LOG
  done
  git -C $WT checkout -q -- . ; git -C /repo worktree remove --force $WT
}
i=0; declare -a buckets
for id in $ids; do buckets[$((i % workers))]+=" $id"; i=$((i+1)); done
for w in $(seq 0 $((workers-1))); do worker $w ${buckets[$w]} & done
wait
echo DONE >> $LOG
