#!/bin/bash
# run every registered check (quick tier by default) and print one summary line each
cd "$(dirname "$0")/.."
tier=${1:-quick}
for i in $(seq -w 1 20); do
  out=$(./check C$i --tier $tier 2>&1 | grep -v conda)
  rc=$?
  echo "$out" | grep -E "VIOLATION|undecided|checker fault" | head -5
  echo "$out" | tail -1 | sed "s/^/[exit ${PIPESTATUS[0]}] /"
done
