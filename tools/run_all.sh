#!/bin/bash
# run every registered check (quick tier by default) and print one summary line each, prefixed by the check's exit status
cd "$(dirname "$0")/.."
tier=${1:-quick}
for i in $(seq -w 1 20); do
  tmp=$(mktemp)
  ./check C$i --tier $tier > $tmp 2>&1
  rc=$?
  grep -E "^VIOLATION|^undecided|^checker fault" $tmp | head -5
  grep -v conda $tmp | tail -1 | sed "s/^/[exit $rc] /"
  rm -f $tmp
done
