#!/usr/bin/env python3
"""markdown rows for DESIGN.md section 7 from $HOME/detect.log: change | needs | caught by (P deductive, X exhaustive, B bounded)"""
import importlib
import os
import re
import sys
sys.path.insert(0, "/verif")
sys.path.insert(0, "/repo")
from pyvc import oblig          # noqa
sys.path.insert(0, "/verif/tools")
from gen_seeded_meta import ROUND2, ROUND3, ROUND4, ROUND5, ROUND6, ROUND7      # noqa
ROUND2 = dict(ROUND2, **ROUND3)
ROUND2.update(ROUND4)
ROUND2.update(ROUND5)
ROUND2.update(ROUND6)
ROUND2.update(ROUND7)

kinds = {}
for i in range(1, 21):
    m = "contracts.C%02d" % i
    importlib.import_module(m)
    for s in oblig.REGISTRY[m]:
        kinds[("C%02d" % i, s.id)] = {"vc": "P", "lemma": "P", "matalg": "P", "exhaustive": "X", "bounded": "B"}[s.kind]
only = sys.argv[1] if len(sys.argv) > 1 else "mut[CD]"
for line in open(os.path.expanduser("~/detect.log")):
    m = re.match(r"(\S+) exit=(\d*) confirmed_inputs=(\d+) obligations=(.*)", line.strip())
    if not m or not re.search(only, m.group(1)):
        continue
    mid, code, nconf, obs = m.group(1), m.group(2), int(m.group(3)), [o for o in m.group(4).split(",") if o]
    prop = mid[:3]
    by = {"P": [], "X": [], "B": []}
    for o in obs:
        kd = kinds.get((prop, o)) or ("B" if o.split("/")[0] in ("native", "float", "solvers") else "P")
        by[kd].append(re.sub(r"\[.*", "", o))
    parts = []
    for k in "PXB":
        names = sorted(set(by[k]))
        if names:
            parts.append("%s `%s`" % (k, "`, `".join(names[:2])) + (" …" if len(names) > 2 else ""))
    what, needs = ROUND2.get(mid, ("", ""))
    print("| %s %s | %s | %s%s |" % (mid.replace("-mut", "-"), what, needs, ", ".join(parts) if parts else "**missed**",
                                     "" if code == "1" else " (exit %s)" % code))
