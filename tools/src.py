#!/usr/bin/env python3
"""Print the source (docstrings removed) of functions under /repo: tools/src.py mod:qual ..."""
import sys, os
sys.path.insert(0, os.path.join(os.path.dirname(__file__), ".."))
from pyvc import front
for spec in sys.argv[1:]:
    f = front.locate(spec)
    print("# %s  %s:%d-%d" % (spec, f["path"], f["lineno"], f["end_lineno"]))
    print(front.code_without_docstrings(f["node"]))
    print()
