#!/bin/bash
# tools/try3.sh Cxx... : run the check of each Cxx against round-3 candidate changes in /tmp/wt3/out/Cxx/mut{E,F} (applied to /repo, undone)
for p in "$@"; do
for m in mutE mutF; do
  f=/tmp/wt3/out/$p/$m/patch.diff
  [ -f $f ] || { echo "== $p $m: no patch"; continue; }
  echo "== $p $m"
  /verif/tools/try_mutant.sh $f $p 2>&1 | grep -v conda | tail -7 | cut -c1-260
done
done
git -C /repo status --short | head -3
