#!/bin/bash
# tools/try_mutant.sh <patch.diff> <Cxx> [extra check args]: apply a seeded change to /repo, run the check, undo.
set -u
patch=$1; prop=$2; shift 2
cd /repo || exit 9
if [ -n "$(git status --porcelain --untracked-files=no)" ]; then echo "/repo is dirty, refusing"; exit 9; fi
git apply "$patch" || { echo "patch does not apply"; exit 9; }
trap 'git -C /repo checkout -- . ' EXIT
cd /verif && ./check "$prop" --no-evidence "$@" 2>&1 | grep -v "conda\|KNOWN-FINDING" | tail -12
echo "check exit=${PIPESTATUS[0]}"
