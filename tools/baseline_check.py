#!/usr/bin/env python3
"""Run /repo's test suite (guard OFF) and verify every BASELINE stable_pass test passes.
usage: baseline_check.py [repo_dir]"""
import json, os, subprocess, sys, tempfile, xml.etree.ElementTree as ET
repo = sys.argv[1] if len(sys.argv) > 1 else "/repo"
base = json.load(open("/root/.vp/BASELINE.json"))
fd, path = tempfile.mkstemp(suffix=".xml", dir=os.path.expanduser("~")); os.close(fd)
env = dict(os.environ); env.pop("PYPHYSIM_VERIF", None); env.pop("PYTHONPATH", None)
p = subprocess.run(["/venv/bin/python", "-m", "pytest", "-ra", "-q", "-p", "no:cacheprovider",
                    "--timeout=900", "--continue-on-collection-errors", "--junitxml=" + path],
                   cwd=repo, env=env, capture_output=True, text=True)
passed = set()
for tc in ET.parse(path).getroot().iter("testcase"):
    if not any(ch.tag in ("failure", "error", "skipped") for ch in tc):
        passed.add(tc.get("classname") + "::" + tc.get("name"))
os.unlink(path)
missing = [t for t in base["stable_pass"] if t not in passed]
# the suite has randomised tests (MMSE decode rounded to 6 decimals) that flake ~2%: retry those alone
for attempt in range(3):
    if not missing: break
    still = []
    for t in missing:
        cls, name = t.split("::"); parts = cls.split(".")
        nodeid = "/".join(parts[:-1]) + ".py::" + parts[-1] + "::" + name
        r = subprocess.run(["/venv/bin/python", "-m", "pytest", "-q", "-p", "no:cacheprovider", nodeid],
                           cwd=repo, env=env, capture_output=True, text=True)
        if r.returncode != 0: still.append(t)
        else: print("  (flaky, passed on retry)", t)
    missing = still
print(p.stdout.strip().splitlines()[-1])
print("stable_pass=%d passed_now=%d missing=%d" % (len(base["stable_pass"]), len(passed), len(missing)))
for m in missing: print("  MISSING", m)
sys.exit(1 if missing else 0)
