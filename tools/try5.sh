#!/bin/bash
# tools/try5.sh Cxx... : development helper - run the check of each Cxx against the round-5 candidate changes in /tmp/wt5/out/Cxx/mut{I,J}
# on the scratch worktree /tmp/wtclean (never /repo); one summary per change
for p in "$@"; do
for m in mutI mutJ; do
  f=/tmp/wt5/out/$p/$m/patch.diff
  [ -f $f ] || { echo "== $p $m: no patch"; continue; }
  echo "== $p $m"
  /verif/tools/try_wt.sh $f $p 2>&1 | grep -v conda | tail -6 | cut -c1-260
done
done
