#!/bin/bash
# Confirm every sub-agent mutant myself in a scratch worktree: patch applies, demo FAILS with it, test suite still passes
# (stable set), demo PASSES without it.  Results -> $HOME/mutant_confirm.log
LOG=$HOME/mutant_confirm.log; : > $LOG
WT=/tmp/wtc; rm -rf $WT; git -C /repo worktree prune; git -C /repo worktree add -q --detach $WT HEAD || exit 1
for id in $(seq -w 1 20); do for m in mutA mutB; do
  d=/tmp/wt/out/C$id/$m; [ -f $d/patch.diff ] || { echo "C$id $m MISSING" >> $LOG; continue; }
  git -C $WT checkout -q -- . ; git -C $WT clean -fdq
  ( cd $WT && PYTHONPATH=$WT timeout 600 /venv/bin/python $d/demo.py > /dev/null 2>&1 ); base=$?
  git -C $WT apply $d/patch.diff 2>/dev/null || { echo "C$id $m PATCH-DOES-NOT-APPLY" >> $LOG; continue; }
  ( cd $WT && PYTHONPATH=$WT timeout 600 /venv/bin/python $d/demo.py > /dev/null 2>&1 ); mut=$?
  suite=$(python3 /verif/tools/baseline_check.py $WT 2>&1 | grep -v conda | grep "missing=" )
  echo "C$id $m demo_without=$base demo_with=$mut suite: $suite" >> $LOG
done; done
git -C $WT checkout -q -- . ; git -C /repo worktree remove --force $WT
echo DONE >> $LOG
