#!/bin/bash
# Confirm every seeded change under /verif/seeded myself in a scratch worktree: patch applies, demo FAILS with it, test suite still passes
# (stable set), demo PASSES without it.  Results -> $HOME/mutant_confirm.log
filter=${1:-.}
LOG=$HOME/mutant_confirm.log; [ "$filter" = "." ] && : > $LOG
WT=/tmp/wtc; rm -rf $WT; git -C /repo worktree prune; git -C /repo worktree add -q --detach $WT HEAD || exit 1
for d in /verif/seeded/*/; do d=${d%/}; id=$(basename $d); m=""
  echo "$id" | grep -Eq "$filter" || continue
  [ -f $d/patch.diff ] || { echo "$id MISSING" >> $LOG; continue; }
  git -C $WT checkout -q -- . ; git -C $WT clean -fdq
  ( cd $WT && PYTHONPATH=$WT timeout 600 /venv/bin/python $d/demo.py > /dev/null 2>&1 ); base=$?
  git -C $WT apply $d/patch.diff 2>/dev/null || { echo "$id PATCH-DOES-NOT-APPLY" >> $LOG; continue; }
  ( cd $WT && PYTHONPATH=$WT timeout 600 /venv/bin/python $d/demo.py > /dev/null 2>&1 ); mut=$?
  suite=$(python3 /verif/tools/baseline_check.py $WT 2>&1 | grep -v conda | grep "missing=" )
  echo "$id demo_without=$base demo_with=$mut suite: $suite" >> $LOG
done
git -C $WT checkout -q -- . ; git -C /repo worktree remove --force $WT
echo DONE >> $LOG
