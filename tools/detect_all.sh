#!/bin/bash
# tools/detect_all.sh [filter-regex]: for every seeded change under /verif/seeded (matching the filter) apply it to /repo, run the
# check of its property (quick tier, no evidence), undo; one line per change in $HOME/detect.log:
#   <id> exit=<code> obligations=<comma separated violated obligations (as far as shown)>
filter=${1:-.}
LOG=$HOME/detect.log
for d in /verif/seeded/*/; do d=${d%/}; id=$(basename $d)
  echo "$id" | grep -Eq "$filter" || continue
  prop=${id%%-*}
  out=$(/verif/tools/try_mutant.sh $d/patch.diff $prop 2>&1)
  code=$(echo "$out" | grep -o "check exit=[0-9]*" | tail -1 | cut -d= -f2)
  viol=$(echo "$out" | grep "^VIOLATION" | grep -o "obligation=[^ ]*" | sed 's/obligation=//' | sort -u | tr '\n' ',')
  nofail=$(echo "$out" | grep "^VIOLATION" | grep -vc "no-failing-input-found")
  echo "$id exit=$code confirmed_inputs=$nofail obligations=$viol" >> $LOG
  if git -C /repo status --porcelain --untracked-files=no | grep -q .; then echo "$id LEFT /repo DIRTY" >> $LOG; git -C /repo checkout -- .; fi
done
echo DONE >> $LOG
