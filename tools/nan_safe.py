#!/usr/bin/env python3
"""One-time source rewrite of the native (bounded / exhaustive) checks in contracts/: a numeric comparison used as an `if` condition
is rewritten so that NaN counts as a failed bound: `a > b` -> `(not (a <= b))`, `a < b` -> `(not (a >= b))` (same for >=, <=).
Only single-operator, single-line comparisons that are the `if` test itself or operands of and/or/not in it."""
import ast
import sys

FLIP = {ast.Gt: "<=", ast.GtE: "<", ast.Lt: ">=", ast.LtE: ">"}


def native_functions(tree):
    for node in ast.walk(tree):
        if isinstance(node, ast.FunctionDef):
            for d in node.decorator_list:
                if isinstance(d, ast.Call) and getattr(d.func, "id", "") == "obligation":
                    for k in d.keywords:
                        if k.arg == "kind" and isinstance(k.value, ast.Constant) and k.value.value in ("bounded", "exhaustive"):
                            yield node


def cond_compares(test):
    if isinstance(test, ast.Compare):
        yield test
    elif isinstance(test, ast.BoolOp):
        for v in test.values:
            yield from cond_compares(v)
    elif isinstance(test, ast.UnaryOp) and isinstance(test.op, ast.Not):
        yield from cond_compares(test.operand)


def main(path):
    src = open(path).read()
    lines = src.split("\n")
    tree = ast.parse(src)
    edits = []
    for fn in native_functions(tree):
        for node in ast.walk(fn):
            if isinstance(node, (ast.If, ast.While)) or isinstance(node, ast.IfExp):
                for cmp in cond_compares(node.test):
                    if len(cmp.ops) != 1 or type(cmp.ops[0]) not in FLIP or cmp.lineno != cmp.end_lineno:
                        continue
                    L, R = cmp.left, cmp.comparators[0]
                    # integer-only comparisons (len(...), constants of type int on both sides) are left alone
                    if isinstance(R, ast.Constant) and isinstance(R.value, int) and not isinstance(R.value, bool) and \
                            isinstance(L, (ast.Call, ast.Name)) and (getattr(getattr(L, "func", None), "id", "") == "len" or isinstance(L, ast.Name)):
                        continue
                    line = lines[cmp.lineno - 1]
                    ltxt = line[L.col_offset:L.end_col_offset]
                    rtxt = line[R.col_offset:R.end_col_offset]
                    edits.append((cmp.lineno - 1, cmp.col_offset, cmp.end_col_offset, "(not (%s %s %s))" % (ltxt, FLIP[type(cmp.ops[0])], rtxt)))
    n = 0
    for ln, a, b, txt in sorted(set(edits), key=lambda e: (e[0], e[1]), reverse=True):
        lines[ln] = lines[ln][:a] + txt + lines[ln][b:]
        n += 1
    open(path, "w").write("\n".join(lines))
    print(path, n, "comparisons rewritten")


for p in sys.argv[1:]:
    main(p)
