#!/usr/bin/env python3
"""Regenerate /verif/MANIFEST.json from the table below (keeps it schema-valid)."""
import json, os, sys
HERE = os.path.dirname(os.path.dirname(os.path.abspath(__file__)))
sys.path.insert(0, HERE)
from manifest_table import CHECKS, NOT_APPLICABLE   # noqa
props = [json.loads(l)["id"] for l in open(os.path.join(HERE, "properties.jsonl"))]
checks = []
for pid in props:
    if pid not in CHECKS:
        continue
    c = CHECKS[pid]
    checks.append({
        "property_id": pid,
        "quick_cmd": "./check %s --tier quick" % pid,
        "thorough_cmd": "./check %s --tier thorough" % pid,
        "evidence_file": "evidence/%s.json" % pid,
        "replay_cmd_template": "./check %s --replay {path}" % pid,
        "engine": "pyvc",
        "level_claimed": {"category": c["category"], "text": c["text"], "design_ref": "DESIGN.md section 4, %s" % pid},
        "level_note": c["note"],
        "technique": c["technique"],
    })
na = [{"property_id": pid, "reason": NOT_APPLICABLE.get(pid, "check not built yet (build in progress; see DESIGN.md section 4 for the planned contracts)")}
      for pid in props if pid not in CHECKS]
m = {
 "version": 1,
 "setup_cmd": "./setup.sh",
 "hooks": {
  "guard": "PYPHYSIM_VERIF",
  "enable": "no source hooks are needed: contracts are sidecar files under /verif/contracts and every check reads /repo's working tree directly (PYTHONPATH=/repo); ./check exports PYPHYSIM_VERIF=1 but nothing in /repo reads it",
  "baseline_off_cmd": "cd /repo && /venv/bin/python -m pytest -ra -q -p no:cacheprovider --timeout=900 --continue-on-collection-errors",
  "source_commits": [],
  "add_only": True
 },
 "engines": [
  {"name": "pyvc", "path": "pyvc/", "serves_properties": sorted(CHECKS),
   "kind_free_text": "self-written VC generator: ast symbolic executor over the real /repo source (re-read on every run) driven by sidecar contracts in contracts/; z3 5.1 discharges the obligations, /usr/bin/cvc5 takes z3's unknowns; exhaustive-config and bounded run-time contract checks on the real code are labelled stand-ins and never counted as proved"}
 ],
 "checks": checks,
 "not_applicable": na,
 "notes": "Exit codes of ./check: 0 held (KNOWN-FINDING lines allowed), 1 VIOLATION, 2 undecided, 3 checker fault. known_findings.json lists recorded defects and the fix: commits made in /repo."
}
json.dump(m, open(os.path.join(HERE, "MANIFEST.json"), "w"), indent=1)
try:
    import jsonschema
    jsonschema.validate(m, json.load(open("/root/.vp/MANIFEST.schema.json")))
    print("MANIFEST.json valid: %d checks, %d not_applicable" % (len(checks), len(na)))
except ImportError:
    print("written (jsonschema not available to validate)")
