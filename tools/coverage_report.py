#!/usr/bin/env python3
"""tools/coverage_report.py <covdir> <Cxx>: which statements of the files a property is anchored in were never executed by the
property's check (natively or through the symbolic interpreter).  Development aid to find code the contracts do not reach.
Produce the data with  PYVC_COVERAGE=<covdir> ./check Cxx --no-evidence"""
import ast
import glob
import json
import os
import sys

cov, prop = sys.argv[1], sys.argv[2]
interp_only = "--interp-only" in sys.argv   # count only statements executed by the symbolic interpreter (deductive reach)
repo = os.environ.get("PYVC_REPO", "/repo")
props = {json.loads(l)["id"]: json.loads(l) for l in open("/verif/properties.jsonl")}
files = props[prop]["anchors"]["files"]
hit = {}
for f in glob.glob(os.path.join(cov, "*.json")):
    d = json.load(open(f))
    for fn, ln in ([] if interp_only else d["native"]):
        hit.setdefault(fn, set()).add(ln)
    for mod, ln in d["interpreted"]:
        hit.setdefault(mod.replace(".", "/") + ".py", set()).add(ln)
for rel in files:
    src = open(os.path.join(repo, rel)).read()
    tree = ast.parse(src)
    h = hit.get(rel, set())
    print("== %s: %d lines hit" % (rel, len(h)))
    for node in ast.walk(tree):
        if isinstance(node, (ast.FunctionDef, ast.AsyncFunctionDef)):
            body = [n for n in ast.walk(node) if isinstance(n, ast.stmt) and n is not node
                    and not (isinstance(n, ast.Expr) and isinstance(getattr(n, "value", None), ast.Constant))]
            lines = sorted({n.lineno for n in body})
            if not lines:
                continue
            miss = [l for l in lines if l not in h]
            if "pragma: no cover" in src.split("\n")[node.lineno - 1] or node.name.startswith("plot") or node.name.startswith("_plot") \
                    or node.name in ("__repr__", "_repr_some_format_", "_repr_svg_", "_repr_png_"):
                continue
            if miss and len(miss) == len(lines):
                print("   NEVER ENTERED  %s (line %d, %d statements)" % (node.name, node.lineno, len(lines)))
            elif miss:
                print("   partly         %s: lines %s" % (node.name, ",".join(map(str, miss[:14])) + (" ..." if len(miss) > 14 else "")))
