#!/bin/bash
# Build the overlay virtualenv used by every check, offline, from the wheelhouse.
# It is a python3.12 venv (same interpreter as /venv, which has the repository's
# dependencies) + z3-solver, cvc5, sympy, jsonschema; /venv's site-packages are
# appended through a .pth file.  /repo itself is put first on sys.path by ./check
# (PYTHONPATH), because /venv also carries a stale *copy* of pyphysim.
set -e
cd "$(dirname "$0")"
export PIP_NO_INDEX=1
if [ ! -x .venv/bin/python ] || ! .venv/bin/python -c "import z3, cvc5, sympy, numpy, scipy" 2>/dev/null; then
  rm -rf .venv
  /venv/bin/python -m venv .venv
  .venv/bin/python -m pip install -q --no-index --find-links /opt/veriftools/wheels \
      z3-solver cvc5 sympy mpmath jsonschema
  SP=$(.venv/bin/python -c "import site;print(site.getsitepackages()[0])")
  echo "import site; site.addsitedir('/venv/lib/python3.12/site-packages')" > "$SP/zz_repo_deps.pth"
fi
.venv/bin/python -c "import z3, cvc5, sympy, numpy, scipy, numba; print('overlay venv ok: z3', z3.get_version_string(), 'numpy', numpy.__version__)"
